package top

import "example.com/kfa/src"

type Doer interface {
	src.Inner
}
