package main

import (
	"bytes"
	"encoding/json"
	"fmt"
	"go/ast"
	"go/format"
	"go/parser"
	"go/token"
	"math/rand"
	"os"
	"os/exec"
	"path/filepath"
	"runtime"
	"sort"
	"strings"
	"sync"

	"github.com/matryer/moq/pkg/moq"

	"verif/internal/cli"
	"verif/internal/evid"
	"verif/internal/gen"
	"verif/internal/ostatic"
	"verif/internal/runner"
)

func init() {
	registry["C14"] = runC14
	registry["C15"] = runC15
	registry["C16"] = runC16
}

// corpusJobs builds trees and cases for the regeneration engines.
func corpusJobs(work string, run *evid.Run, ntrees int, profiles []gen.Profile, opts gen.CaseOpts, seedMul int64) []job {
	seed := evid.Seed()
	hz := currentHazards()
	opts.SameName = hz.SamePkgName
	var jobs []job
	for i := 0; i < ntrees; i++ {
		t := gen.NewTree(seed*seedMul+int64(i), profiles[i%len(profiles)], hz)
		ld, err := prepTree(work, t, i)
		if err != nil {
			fmt.Println("INCONCLUSIVE (generator):", err)
			run.Inconc("generated tree does not load")
			continue
		}
		rng := rand.New(rand.NewSource(seed*104729 + int64(i)))
		for _, c := range gen.Cases(t, rng, opts) {
			jobs = append(jobs, job{c: c, lt: ld.lt, dir: ld.dir})
		}
	}
	return jobs
}

func treesFromEnv(def int) int {
	if v := os.Getenv("VERIF_TREES"); v != "" {
		fmt.Sscan(v, &def)
	}
	return def
}

// ---------------------------------------------------------------- C16

func withFmt(c *gen.Case, f string) []string {
	c2 := *c
	c2.Fmt = f
	return c2.Args()
}

// bodyAfterImports returns the import path set and the text from the first non-import declaration on.
func bodyAfterImports(src []byte) (paths []string, body string, err error) {
	fset := token.NewFileSet()
	f, err := parser.ParseFile(fset, "x.go", src, parser.ParseComments)
	if err != nil {
		return nil, "", err
	}
	for _, im := range f.Imports {
		paths = append(paths, strings.Trim(im.Path.Value, "`\""))
	}
	sort.Strings(paths)
	for _, d := range f.Decls {
		if gd, ok := d.(*ast.GenDecl); ok && gd.Tok == token.IMPORT {
			continue
		}
		pos := d.Pos()
		switch x := d.(type) {
		case *ast.GenDecl:
			if x.Doc != nil {
				pos = x.Doc.Pos()
			}
		case *ast.FuncDecl:
			if x.Doc != nil {
				pos = x.Doc.Pos()
			}
		}
		return paths, string(src[fset.Position(pos).Offset:]), nil
	}
	return paths, "", nil
}

func runC16(prop, tier string) int {
	rule := "cases = corpus requests (seeded scratch modules x flag/destination vectors), each generated four times: default formatter, -fmt gofmt, -fmt noop, -fmt goimports; oracles: default == go/format.Source(default); default == -fmt gofmt; marker is line 1 and precedes the package clause; go/format.Source(noop) == default byte for byte; goimports output has the same import path set and the same text from the first non-import declaration on; distinct = distinct (interface shape, flag/destination configuration); non-trivial = at least one method (import-less, method-less requests are counted in evaluations and exercised too)"
	run := evid.New(prop, tier, "exploration", rule)
	run.Assumptions = []string{"go/format of the harness is the same toolchain's as the one linked into moq"}
	work, err := runner.NewWork(prop)
	if err != nil {
		return 2
	}
	defer os.RemoveAll(work)
	mq, err := runner.Build(work)
	if err != nil {
		fmt.Println(err)
		return 2
	}
	n := 8
	if tier == "thorough" {
		n = 160
	}
	opts := gen.DefaultCaseOpts
	opts.PerIface, opts.Multi = 1, 2
	opts.Formatters = []string{""}
	// one tree in four has a source package whose files all use CRLF line endings
	crlf := gen.ProfNaming
	crlf.Name, crlf.CRLF = "naming-crlf", true
	jobs := corpusJobs(work, run, treesFromEnv(n), []gen.Profile{gen.ProfGeneral, crlf, gen.ProfImports, gen.ProfGeneric}, opts, 100057)
	runner.Parallel(len(jobs), 16, func(i int) {
		j := jobs[i]
		cwd := cwdOf(j.dir, j.c)
		outs := map[string]runner.Result{}
		fmts := []string{"", "gofmt", "noop"}
		for _, f := range fmts {
			outs[f] = mq.Run(cwd, withFmt(j.c, f), runner.Opts{})
		}
		def := outs[""]
		// goimports is compared unless the default output carries an unaliased import whose package name goimports
		// cannot guess from the path (open finding KF-goimports-name-mismatch, exercised through its own input)
		var outside runner.Result
		ranOutside := false
		if def.Exit == 0 && !goimportsHazard(j.lt, j.c) {
			outs["goimports"] = mq.Run(cwd, withFmt(j.c, "goimports"), runner.Opts{})
			// once more from a directory outside the module, source directory given as an absolute path
			if j.c.Dest == 0 || j.c.Dest == 1 { // -pkg probing is relative to the working directory; keep to in-place requests
				c2 := *j.c
				c2.Fmt = "goimports"
				args := c2.Args()
				for k, a := range args {
					if a == "." || a == "./"+j.c.Tree.SrcDir {
						args[k] = filepath.Join(j.dir, j.c.Tree.SrcDir)
					}
				}
				outside = mq.Run(work, args, runner.Opts{})
				ranOutside = true
			}
		}
		if def.TimedOut {
			run.Inconc("watchdog")
			return
		}
		if def.Exit != 0 {
			run.Inconc("moq rejected a corpus case: " + firstLine(string(def.Stderr)))
			fmt.Printf("INCONCLUSIVE: moq exit=%d on seed=%d %v: %s\n", def.Exit, j.c.Tree.Seed, j.c.Args(), firstLine(string(def.Stderr)))
			return
		}
		var v []string
		lines := strings.SplitN(string(def.Stdout), "\n", 2)
		if lines[0] != "// Code generated by moq; DO NOT EDIT." {
			v = append(v, fmt.Sprintf("first line of the default output is %q, not the generated-code marker", lines[0]))
		}
		if i := strings.Index(string(def.Stdout), "\npackage "); i < 0 || strings.Index(string(def.Stdout), "// Code generated by moq; DO NOT EDIT.") > i {
			v = append(v, "marker does not precede the package clause")
		}
		if canon, err := format.Source(def.Stdout); err != nil {
			v = append(v, "default output is not parseable Go: "+err.Error())
		} else if !bytes.Equal(canon, def.Stdout) {
			v = append(v, "default output is not gofmt-canonical: "+firstDiff(def.Stdout, canon))
		}
		if g := outs["gofmt"]; g.Exit != 0 || !bytes.Equal(g.Stdout, def.Stdout) {
			v = append(v, "-fmt gofmt output differs from the default output: "+firstDiff(def.Stdout, g.Stdout))
		}
		if np := outs["noop"]; np.Exit != 0 {
			v = append(v, "-fmt noop fails where the default succeeds: "+firstLine(string(np.Stderr)))
		} else {
			if !strings.HasPrefix(string(np.Stdout), "// Code generated by moq; DO NOT EDIT.\n") {
				v = append(v, "first line of the noop output is not the marker")
			}
			if canon, err := format.Source(np.Stdout); err != nil {
				v = append(v, "noop output is not parseable Go: "+err.Error())
			} else if !bytes.Equal(canon, def.Stdout) {
				v = append(v, "gofmt applied to the -fmt noop output differs from the default output: "+firstDiff(def.Stdout, canon))
			}
		}
		if gi, ok := outs["goimports"]; ok {
			if gi.Exit != 0 {
				v = append(v, "-fmt goimports fails where the default succeeds: "+firstLine(string(gi.Stderr)))
			} else {
				if !strings.HasPrefix(string(gi.Stdout), "// Code generated by moq; DO NOT EDIT.\n") {
					v = append(v, "first line of the goimports output is not the marker")
				}
				p1, b1, e1 := bodyAfterImports(def.Stdout)
				p2, b2, e2 := bodyAfterImports(gi.Stdout)
				switch {
				case e1 != nil || e2 != nil:
					v = append(v, fmt.Sprintf("goimports output does not parse: %v %v", e1, e2))
				case strings.Join(p1, ",") != strings.Join(p2, ","):
					v = append(v, fmt.Sprintf("goimports output imports %v, default output imports %v", p2, p1))
				case b1 != b2:
					v = append(v, "goimports output has different declarations: "+firstDiff([]byte(b1), []byte(b2)))
				}
			}
			run.Add("goimports_comparisons", 1)
			if ranOutside {
				run.Add("goimports_runs_from_outside_the_module", 1)
				if outside.Exit != 0 {
					v = append(v, "-fmt goimports run from outside the module fails: "+firstLine(string(outside.Stderr)))
				} else if !bytes.Equal(outside.Stdout, gi.Stdout) {
					p1, _, _ := bodyAfterImports(def.Stdout)
					p3, _, _ := bodyAfterImports(outside.Stdout)
					if strings.Join(p1, ",") != strings.Join(p3, ",") {
						v = append(v, fmt.Sprintf("-fmt goimports run from outside the module imports %v, the default output imports %v", p3, p1))
					}
				}
			}
		}
		key := ""
		nm := 0
		for _, ifc := range j.c.Ifaces {
			nm += len(ifc.Methods) + len(ifc.Embeds)
		}
		if nm > 0 {
			key = j.c.Key()
		} else {
			run.Add("method_less_requests", 1)
		}
		run.Eval(key)
		run.Add("outputs_compared", len(outs))
		if i%53 == 0 {
			run.Sample(j.c.Describe())
		}
		if len(v) > 0 {
			files := replayFiles(j.c, def, nil)
			for f, r := range outs {
				files["out_"+f+".go.txt"] = string(r.Stdout)
			}
			run.Violation(fmt.Sprintf("seed=%d argv=%v :: %s", j.c.Tree.Seed, j.c.Args(), strings.Join(v, " | ")), files)
		}
	})
	runKnownC16(run, mq, work)
	return run.Finish()
}

// goimportsHazard reports whether a correct output for the request must carry an unaliased import whose package
// name differs from what goimports assumes from the import path when it cannot load the package. It is computed
// from the interfaces' own go/types signatures and the source files' aliases, not from what moq emitted.
func goimportsHazard(lt *ostatic.Tree, c *gen.Case) bool {
	var names []string
	for _, i := range c.Ifaces {
		names = append(names, i.Name)
	}
	aliases := lt.AllAliases(c.Tree.SrcPath)
	for _, p := range ostatic.RequiredImports(lt, c.Tree.SrcPath, names) {
		lp, ok := lt.Pkgs[p]
		if !ok {
			continue // std: the name is the path base
		}
		aliased := false
		for _, al := range aliases[p] {
			if al != "." && al != "_" {
				aliased = true
			}
		}
		if !aliased && gen.AssumedName(p) != lp.Name {
			return true
		}
	}
	// the source package itself is imported under its own name when generating into another package
	if c.Dest >= 2 && gen.AssumedName(c.Tree.SrcPath) != c.Tree.SrcName {
		return true
	}
	return false
}

func firstDiff(a, b []byte) string {
	la, lb := strings.Split(string(a), "\n"), strings.Split(string(b), "\n")
	for i := 0; i < len(la) || i < len(lb); i++ {
		var x, y string
		if i < len(la) {
			x = la[i]
		}
		if i < len(lb) {
			y = lb[i]
		}
		if x != y {
			return fmt.Sprintf("line %d: %q vs %q", i+1, trunc(x, 120), trunc(y, 120))
		}
	}
	return "identical"
}

func trunc(s string, n int) string {
	if len(s) > n {
		return s[:n] + "…"
	}
	return s
}

func runKnownC16(run *evid.Run, mq *runner.Moq, work string) {
	for _, k := range loadKnown().Findings {
		if k.Status != "open" {
			continue
		}
		listed := false
		for _, p := range k.Properties {
			if p == "C16" {
				listed = true
			}
		}
		if !listed {
			continue
		}
		kc, files, ok := readKnownCase(k)
		if !ok {
			continue
		}
		dst := filepath.Join(work, "known-"+k.ID)
		for rel, content := range files {
			p := filepath.Join(dst, rel)
			os.MkdirAll(filepath.Dir(p), 0o755)
			os.WriteFile(p, []byte(content), 0o644)
		}
		// strip the -fmt flag of the recorded argv, then compare default and goimports
		var base []string
		for i := 0; i < len(kc.Argv); i++ {
			if kc.Argv[i] == "-fmt" {
				i++
				continue
			}
			base = append(base, kc.Argv[i])
		}
		def := mq.Run(filepath.Join(dst, kc.Cwd), base, runner.Opts{})
		gi := mq.Run(filepath.Join(dst, kc.Cwd), append([]string{"-fmt", "goimports"}, base...), runner.Opts{})
		if def.Exit == 0 && gi.Exit == 0 {
			p1, _, _ := bodyAfterImports(def.Stdout)
			p2, _, _ := bodyAfterImports(gi.Stdout)
			if strings.Join(p1, ",") != strings.Join(p2, ",") {
				run.Known(k.ID, fmt.Sprintf("%s :: goimports output imports %v, default output imports %v", k.Title, p2, p1))
			}
		}
	}
}

// ---------------------------------------------------------------- C14

type libJob struct {
	Dir     string   `json:"dir"`     // working directory to chdir into
	SrcDir  string   `json:"src_dir"` // SrcDir passed to moq.New
	PkgName string   `json:"pkg_name"`
	Fmt     string   `json:"fmt"`
	Stub    bool     `json:"stub"`
	Skip    bool     `json:"skip"`
	Resets  bool     `json:"resets"`
	Names   []string `json:"names"`
	Repeat  int      `json:"repeat"`
	// Edit, when set, is applied after the first generation: file (relative to Dir) gets Old replaced by New.
	// WantReuse: after the first generation ask the same Mocker for the same mocks once more (result in Reuse).
	WantReuse bool `json:"want_reuse,omitempty"`
	// Writer selects the writer handed to Mock: "" (buffer), "count", or "fail:<n>" (fails after n bytes).
	Writer   string `json:"writer,omitempty"`
	// Concurrent > 1: the job is generated by that many goroutines at once, each with its own fresh Mocker and a
	// slow writer (absolute SrcDir required: no chdir).
	Concurrent int `json:"concurrent,omitempty"`
	// Group: requests generated at the same time, one goroutine and one fresh Mocker each, Concurrent rounds.
	Group []libJob `json:"group,omitempty"`
	EditFile string `json:"edit_file,omitempty"`
	EditOld  string `json:"edit_old,omitempty"`
	EditNew  string `json:"edit_new,omitempty"`
}

type libResult struct {
	Outputs []string `json:"outputs"` // one per repetition ("" + Err when failed)
	Errs    []string `json:"errs"`
	Panic   string   `json:"panic,omitempty"`
	Reuse      string `json:"reuse,omitempty"`     // second Mock call on the same Mocker, same names
	ReuseErr   string `json:"reuse_err,omitempty"`
	WriteCalls []int `json:"write_calls,omitempty"` // per repetition
	WriteLens  [][]int `json:"write_lens,omitempty"`
	AfterEdit string `json:"after_edit,omitempty"`
	AfterEditErr string `json:"after_edit_err,omitempty"`
}

// libDriver runs in a child process: it executes library requests sequentially (chdir is process-global) with
// fresh Mocker instances and writes the outputs next to the job file.
func libDriver(jobFile string) int {
	b, err := os.ReadFile(jobFile)
	if err != nil {
		fmt.Println(err)
		return 2
	}
	var jobs []libJob
	if err := json.Unmarshal(b, &jobs); err != nil {
		fmt.Println(err)
		return 2
	}
	results := make([]libResult, len(jobs))
	var lastWriter *monWriter
	var reuseOut, reuseErr *string
	gen := func(j libJob) (out string, errStr string, pan string) {
		defer func() {
			if r := recover(); r != nil {
				pan = fmt.Sprint(r)
			}
		}()
		w := &monWriter{failAfter: -1}
		if strings.HasPrefix(j.Writer, "fail:") {
			fmt.Sscanf(j.Writer, "fail:%d", &w.failAfter)
		}
		lastWriter = w
		m, err := moq.New(moq.Config{SrcDir: j.SrcDir, PkgName: j.PkgName, Formatter: j.Fmt, StubImpl: j.Stub, SkipEnsure: j.Skip, WithResets: j.Resets})
		if err != nil {
			return "", err.Error(), ""
		}
		if err := m.Mock(w, j.Names...); err != nil {
			return w.buf.String(), err.Error(), ""
		}
		if reuseOut != nil {
			// the same Mocker asked for the same mocks once more (a second destination, a retry)
			var again bytes.Buffer
			if err := m.Mock(&again, j.Names...); err != nil {
				*reuseErr = err.Error()
			}
			*reuseOut = again.String()
		}
		return w.buf.String(), "", ""
	}
	for i, j := range jobs {
		if len(j.Group) > 0 {
			results[i] = concurrentGen(j)
			continue
		}
		if err := os.Chdir(j.Dir); err != nil {
			results[i].Errs = []string{err.Error()}
			continue
		}
		for r := 0; r < j.Repeat; r++ {
			reuseOut, reuseErr = nil, nil
			if r == 0 && j.WantReuse {
				reuseOut, reuseErr = &results[i].Reuse, &results[i].ReuseErr
			}
			o, e, p := gen(j)
			results[i].Outputs = append(results[i].Outputs, o)
			results[i].Errs = append(results[i].Errs, e)
			if lastWriter != nil {
				results[i].WriteCalls = append(results[i].WriteCalls, len(lastWriter.lens))
				results[i].WriteLens = append(results[i].WriteLens, lastWriter.lens)
			}
			if p != "" {
				results[i].Panic = p
			}
		}
		if j.EditFile != "" {
			if src, err := os.ReadFile(j.EditFile); err == nil {
				os.WriteFile(j.EditFile, []byte(strings.Replace(string(src), j.EditOld, j.EditNew, 1)), 0o644)
				o, e, p := gen(j)
				results[i].AfterEdit, results[i].AfterEditErr = o, e
				if p != "" {
					results[i].Panic = p
				}
			}
		}
	}
	out, _ := json.Marshal(results)
	if err := os.WriteFile(jobFile+".out", out, 0o644); err != nil {
		fmt.Println(err)
		return 2
	}
	return 0
}

// slowWriter hands the bytes over in small chunks and yields in between, so that a generator that still owns
// (or has already given away) the memory behind them overlaps with other generators.
type slowWriter struct{ buf bytes.Buffer }

func (w *slowWriter) Write(p []byte) (int, error) {
	for off := 0; off < len(p); off += 512 {
		end := off + 512
		if end > len(p) {
			end = len(p)
		}
		w.buf.Write(p[off:end])
		runtime.Gosched()
	}
	return len(p), nil
}

// concurrentGen runs the requests of j.Group at the same time, each in its own goroutine with its own fresh
// Mocker, j.Concurrent times over. Outputs[k] is the output of member k in the last round that differed from its
// first round, or its first output; a difference between rounds is reported through Errs.
func concurrentGen(j libJob) libResult {
	var res libResult
	n := len(j.Group)
	res.Outputs = make([]string, n)
	res.Errs = make([]string, n)
	var pmu sync.Mutex
	for round := 0; round < j.Concurrent; round++ {
		var wg, loaded sync.WaitGroup
		start := make(chan struct{})
		loaded.Add(n)
		go func() { loaded.Wait(); close(start) }()
		outs := make([]string, n)
		errs := make([]string, n)
		for g := 0; g < n; g++ {
			wg.Add(1)
			go func(g int) {
				defer wg.Done()
				defer func() {
					if r := recover(); r != nil {
						pmu.Lock()
						res.Panic = fmt.Sprint(r)
						pmu.Unlock()
					}
				}()
				m := j.Group[g]
				// loading the package takes a hundred times longer than generating: load everywhere first, then let all
				// instances generate at the same moment
				mk, err := moq.New(moq.Config{SrcDir: m.SrcDir, PkgName: m.PkgName, Formatter: m.Fmt, StubImpl: m.Stub, SkipEnsure: m.Skip, WithResets: m.Resets})
				loaded.Done()
				<-start
				if err != nil {
					errs[g] = err.Error()
					return
				}
				w := &slowWriter{}
				if err := mk.Mock(w, m.Names...); err != nil {
					errs[g] = err.Error()
					return
				}
				outs[g] = w.buf.String()
			}(g)
		}
		wg.Wait()
		for g := 0; g < n; g++ {
			if round == 0 {
				res.Outputs[g], res.Errs[g] = outs[g], errs[g]
			} else if outs[g] != res.Outputs[g] || errs[g] != "" {
				// keep the deviating output: the harness compares with the fresh-process reference
				res.Outputs[g] = outs[g]
				if errs[g] != "" {
					res.Errs[g] = errs[g]
				}
			}
		}
	}
	return res
}

// monWriter counts Write calls and can fail after a number of bytes.
type monWriter struct {
	buf       bytes.Buffer
	lens      []int
	failAfter int
}

func (w *monWriter) Write(p []byte) (int, error) {
	w.lens = append(w.lens, len(p))
	if w.failAfter >= 0 {
		n := w.failAfter - w.buf.Len()
		if n < 0 {
			n = 0
		}
		if n < len(p) {
			w.buf.Write(p[:n])
			return n, fmt.Errorf("monWriter: injected failure after %d bytes", w.failAfter)
		}
	}
	return w.buf.Write(p)
}

func runC14(prop, tier string) int {
	rule := "cases = corpus requests biased to conflict-heavy import sets (imports/naming profiles, all three formatters incl. noop which does not re-sort), each generated by P fresh moq processes and K fresh Mocker instances inside one long-lived library process (alternating working directories, relative SrcDir \".\"), plus an edit history (interface gains a method between two fresh instances, compared with a fresh process); oracle = byte equality of all outputs of one request; distinct = distinct (interface shape, configuration); non-trivial = output with at least three imports"
	run := evid.New(prop, tier, "exploration", rule)
	run.Assumptions = []string{"Go randomises map iteration per range statement, so repetitions inside one process and across processes both sample iteration orders; the orders actually taken are not observable without hooks"}
	work, err := runner.NewWork(prop)
	if err != nil {
		return 2
	}
	defer os.RemoveAll(work)
	mq, err := runner.Build(work)
	if err != nil {
		fmt.Println(err)
		return 2
	}
	ntrees, P, K := 4, 4, 8
	if tier == "thorough" {
		ntrees, P, K = 24, 8, 24
	}
	opts := gen.DefaultCaseOpts
	opts.PerIface, opts.Multi = 1, 3
	opts.Formatters = []string{"", "noop", "noop", "goimports"}
	jobs := corpusJobs(work, run, treesFromEnv(ntrees), []gen.Profile{gen.ProfCluster, gen.ProfImports, gen.ProfNaming, gen.ProfGeneral}, opts, 100069)
	// --- across processes
	firsts := make([][]byte, len(jobs))
	ok := make([]bool, len(jobs))
	runner.Parallel(len(jobs), 16, func(i int) {
		j := jobs[i]
		cwd := cwdOf(j.dir, j.c)
		var outs [][]byte
		for p := 0; p < P; p++ {
			r := mq.Run(cwd, j.c.Args(), runner.Opts{})
			if r.TimedOut {
				run.Inconc("watchdog")
				return
			}
			if r.Exit != 0 {
				if p == 0 {
					run.Inconc("moq rejected a corpus case: " + firstLine(string(r.Stderr)))
					fmt.Printf("INCONCLUSIVE: moq exit=%d on seed=%d %v: %s\n", r.Exit, j.c.Tree.Seed, j.c.Args(), firstLine(string(r.Stderr)))
					return
				}
				outs = append(outs, []byte("<exit "+fmt.Sprint(r.Exit)+"> "+string(r.Stderr)))
				continue
			}
			outs = append(outs, r.Stdout)
		}
		distinct := map[string]bool{}
		for _, o := range outs {
			distinct[string(o)] = true
		}
		key := ""
		if bytes.Count(outs[0], []byte("\n\t\"")) + bytes.Count(outs[0], []byte(" \"")) >= 3 {
			key = j.c.Key()
		}
		run.Eval(key)
		run.Add("process_generations", len(outs))
		firsts[i], ok[i] = outs[0], true
		if i%41 == 0 {
			run.Sample(j.c.Describe())
		}
		if len(distinct) > 1 {
			files := replayFiles(j.c, runner.Result{Stdout: outs[0]}, nil)
			n := 0
			for o := range distinct {
				files[fmt.Sprintf("variant%d.go.txt", n)] = o
				n++
			}
			var vs []string
			for o := range distinct {
				vs = append(vs, o)
			}
			run.Violation(fmt.Sprintf("seed=%d argv=%v :: %d fresh processes produced %d different outputs: %s", j.c.Tree.Seed, j.c.Args(), P, len(distinct), firstDiff([]byte(vs[0]), []byte(vs[1]))), files)
		}
	})
	// --- fresh instances in one library process; consecutive jobs alternate between trees so that a relative
	// SrcDir "." means a different package each time
	var ljobs []libJob
	var idx []int
	order := rand.New(rand.NewSource(evid.Seed())).Perm(len(jobs))
	for _, i := range order {
		if !ok[i] {
			continue
		}
		c := jobs[i].c
		var names []string
		for k, ifc := range c.Ifaces {
			if c.MockNames[k] != "" {
				names = append(names, ifc.Name+":"+c.MockNames[k])
			} else {
				names = append(names, ifc.Name)
			}
		}
		src := "."
		if c.CwdRoot {
			src = "./" + c.Tree.SrcDir
		}
		ljobs = append(ljobs, libJob{Dir: cwdOf(jobs[i].dir, c), SrcDir: src, PkgName: c.PkgName, Fmt: c.Fmt, Stub: c.Stub, Skip: c.SkipEnsure, Resets: c.WithResets, Names: names, Repeat: K})
		idx = append(idx, i)
	}
	if len(ljobs) > 0 {
		chunks := 16
		var wg sync.WaitGroup
		var mu sync.Mutex
		for ch := 0; ch < chunks; ch++ {
			var part []libJob
			var pidx []int
			for k := ch; k < len(ljobs); k += chunks {
				part = append(part, ljobs[k])
				pidx = append(pidx, idx[k])
			}
			if len(part) == 0 {
				continue
			}
			wg.Add(1)
			go func(ch int, part []libJob, pidx []int) {
				defer wg.Done()
				res, err := runLibDriver(work, fmt.Sprintf("lib%02d.json", ch), part)
				if err != nil {
					run.Inconc("library driver: " + err.Error())
					return
				}
				mu.Lock()
				defer mu.Unlock()
				for k, r := range res {
					j := jobs[pidx[k]]
					run.Add("library_generations", len(r.Outputs))
					if r.Panic != "" {
						run.Violation(fmt.Sprintf("seed=%d argv=%v :: library instance panicked: %s", j.c.Tree.Seed, j.c.Args(), r.Panic), replayFiles(j.c, runner.Result{}, nil))
						continue
					}
					for rep, o := range r.Outputs {
						if r.Errs[rep] != "" || o != string(firsts[pidx[k]]) {
							what := r.Errs[rep]
							if what == "" {
								what = firstDiff(firsts[pidx[k]], []byte(o))
							}
							files := replayFiles(j.c, runner.Result{Stdout: firsts[pidx[k]]}, nil)
							files["library_output.go.txt"] = o
							run.Violation(fmt.Sprintf("seed=%d argv=%v :: fresh Mocker instance #%d in a long-lived process differs from a fresh moq process: %s", j.c.Tree.Seed, j.c.Args(), rep, what), files)
							break
						}
					}
				}
			}(ch, part, pidx)
		}
		wg.Wait()
	}
	// --- fresh instances running at the same time in one process (absolute SrcDir, slow writers)
	concurrentInstances(run, work, jobs, ok, firsts, tier)
	// --- the -out file after a different, larger generation was written there first
	outHistories(run, mq, work, jobs, ok, firsts)
	// --- edit history: the interface gains a method between two fresh instances of one process
	editHistories(run, mq, work, jobs, ok)
	return run.Finish()
}

// concurrentInstances generates requests with many fresh Mockers at once inside one process; every output must
// equal the output of a fresh process.
func concurrentInstances(run *evid.Run, work string, jobs []job, ok []bool, firsts [][]byte, tier string) {
	conc, maxJobs := 12, 12
	if tier == "thorough" {
		conc, maxJobs = 24, 80
	}
	var ljobs []libJob
	var idx []int
	for i, j := range jobs {
		if !ok[i] || len(ljobs) >= maxJobs {
			continue
		}
		c := j.c
		var names []string
		for k, ifc := range c.Ifaces {
			if c.MockNames[k] != "" {
				names = append(names, ifc.Name+":"+c.MockNames[k])
			} else {
				names = append(names, ifc.Name)
			}
		}
		ljobs = append(ljobs, libJob{SrcDir: filepath.Join(j.dir, c.Tree.SrcDir), PkgName: c.PkgName, Fmt: c.Fmt, Stub: c.Stub, Skip: c.SkipEnsure, Resets: c.WithResets, Names: names, Concurrent: conc})
		idx = append(idx, i)
	}
	if len(ljobs) == 0 {
		return
	}
	for _, procs := range []string{"1", "4", ""} {
		group := libJob{Group: ljobs, Concurrent: conc / 4}
		resAll, err := runLibDriverEnv(work, "conc"+procs+".json", []libJob{group}, procs)
		if err != nil || len(resAll) != 1 {
			run.Inconc("library driver (concurrent)")
			continue
		}
		r := resAll[0]
		run.Add("concurrent_library_generations", len(ljobs)*group.Concurrent)
		if r.Panic != "" {
			run.Violation(fmt.Sprintf("a Mocker running concurrently with %d others panicked (GOMAXPROCS=%q): %s", len(ljobs)-1, procs, r.Panic), nil)
			continue
		}
		for k := range ljobs {
			j := jobs[idx[k]]
			run.Eval("concurrent-library|" + j.c.Key())
			if r.Errs[k] != "" || r.Outputs[k] != string(firsts[idx[k]]) {
				what := r.Errs[k]
				if what == "" {
					what = firstDiff(firsts[idx[k]], []byte(r.Outputs[k]))
				}
				files := replayFiles(j.c, runner.Result{Stdout: firsts[idx[k]]}, nil)
				files["concurrent_output.go.txt"] = r.Outputs[k]
				run.Violation(fmt.Sprintf("seed=%d argv=%v :: a fresh Mocker generating while %d other fresh Mockers generate other requests in the same process (GOMAXPROCS=%q) differs from a fresh process: %s", j.c.Tree.Seed, j.c.Args(), len(ljobs)-1, procs, what), files)
			}
		}
	}
}

// outHistories writes a larger, different generation to -out first and then the request itself: the file must
// equal the request's stdout-mode output (the same inputs give the same bytes whatever an earlier run left).
func outHistories(run *evid.Run, mq *runner.Moq, work string, jobs []job, ok []bool, firsts [][]byte) {
	n := 0
	for i, j := range jobs {
		c := j.c
		if !ok[i] || len(c.Ifaces) != 1 || n >= 8 {
			continue
		}
		// the earlier, larger generation: the same interface plus another one of the tree
		var other *gen.Iface
		for _, o := range c.Tree.Ifaces {
			if o != c.Ifaces[0] && o.Exportable == c.Ifaces[0].Exportable && !o.NeedsSkipEnsure && len(o.Methods) > 0 && len(o.TParams) == 0 {
				other = o
				break
			}
		}
		if other == nil {
			continue
		}
		n++
		out := filepath.Join(work, fmt.Sprintf("hist%03d", n), "mock_out.go")
		big := *c
		big.Ifaces = []*gen.Iface{c.Ifaces[0], other}
		big.MockNames = []string{c.MockNames[0], ""}
		cwd := cwdOf(j.dir, c)
		r1 := mq.Run(cwd, append([]string{"-out", out}, big.Args()...), runner.Opts{})
		r2 := mq.Run(cwd, append([]string{"-out", out}, c.Args()...), runner.Opts{})
		if r1.Exit != 0 || r2.Exit != 0 {
			continue
		}
		got, _ := os.ReadFile(out)
		run.Eval("out-history|" + c.Key())
		run.Add("out_histories", 1)
		if !bytes.Equal(got, firsts[i]) {
			files := replayFiles(c, runner.Result{Stdout: firsts[i]}, nil)
			files["out_after_history.go.txt"] = string(got)
			run.Violation(fmt.Sprintf("seed=%d argv=%v :: the -out file written after an earlier, larger generation differs from the output of the same request (%d vs %d bytes): %s", c.Tree.Seed, c.Args(), len(got), len(firsts[i]), firstDiff(firsts[i], got)), files)
		}
	}
}

func runLibDriver(work, name string, part []libJob) ([]libResult, error) {
	return runLibDriverEnv(work, name, part, "")
}

func runLibDriverEnv(work, name string, part []libJob, gomaxprocs string) ([]libResult, error) {
	jf := filepath.Join(work, name)
	b, _ := json.Marshal(part)
	if err := os.WriteFile(jf, b, 0o644); err != nil {
		return nil, err
	}
	exe, _ := os.Executable()
	cmd := exec.Command(exe, "libdriver", jf)
	cmd.Env = runner.ChildEnv()
	if gomaxprocs != "" {
		cmd.Env = append(cmd.Env, "GOMAXPROCS="+gomaxprocs)
	}
	out, err := cmd.CombinedOutput()
	if err != nil {
		return nil, fmt.Errorf("%v: %s", err, trunc(string(out), 400))
	}
	rb, err := os.ReadFile(jf + ".out")
	if err != nil {
		return nil, err
	}
	var res []libResult
	if err := json.Unmarshal(rb, &res); err != nil {
		return nil, err
	}
	return res, nil
}

func editHistories(run *evid.Run, mq *runner.Moq, work string, jobs []job, ok []bool) {
	done := map[int64]bool{}
	n := 0
	for i, j := range jobs {
		c := j.c
		if !ok[i] || done[c.Tree.Seed] || len(c.Ifaces) != 1 || c.Ifaces[0].IsAlias || len(c.Ifaces[0].Methods) == 0 || c.Dest != 0 {
			continue
		}
		done[c.Tree.Seed] = true
		ifc := c.Ifaces[0]
		// private copy of the tree for the edit
		root := filepath.Join(work, fmt.Sprintf("edit%03d", n))
		n++
		if err := c.Tree.WriteTo(root); err != nil {
			continue
		}
		file := filepath.Join(root, c.Tree.SrcDir, fmt.Sprintf("f%d.go", ifc.File))
		old := "type " + ifc.Name
		src, _ := os.ReadFile(file)
		k := strings.Index(string(src), old)
		if k < 0 {
			continue
		}
		br := strings.Index(string(src)[k:], "interface {\n")
		if br < 0 {
			continue
		}
		anchor := string(src)[k : k+br+len("interface {\n")]
		lj := libJob{Dir: filepath.Join(root, c.Tree.SrcDir), SrcDir: ".", Fmt: c.Fmt, Stub: c.Stub, Skip: c.SkipEnsure, Resets: c.WithResets, Names: []string{ifc.Name}, Repeat: 2,
			EditFile: file, EditOld: anchor, EditNew: anchor + "\tZzAddedLater(n int) string\n"}
		res, err := runLibDriver(work, fmt.Sprintf("edit%03d.json", n), []libJob{lj})
		if err != nil || len(res) != 1 {
			run.Inconc("library driver (edit history)")
			continue
		}
		c2 := *c
		c2.CwdRoot, c2.PkgName, c2.Dest = false, "", 0
		c2.Ifaces, c2.MockNames = c.Ifaces[:1], []string{""}
		fresh := mq.Run(filepath.Join(root, c.Tree.SrcDir), c2.Args(), runner.Opts{})
		run.Eval("edit-history|" + c.Key())
		run.Add("edit_histories", 1)
		if fresh.Exit != 0 {
			continue
		}
		if res[0].AfterEdit != string(fresh.Stdout) {
			what := res[0].AfterEditErr
			if what == "" {
				what = firstDiff(fresh.Stdout, []byte(res[0].AfterEdit))
			}
			files := replayFiles(c, fresh, nil)
			files["library_after_edit.go.txt"] = res[0].AfterEdit
			run.Violation(fmt.Sprintf("seed=%d iface=%s :: after the interface gained a method, a fresh Mocker in the same process differs from a fresh moq process: %s", c.Tree.Seed, ifc.Name, what), files)
		}
	}
}

// ---------------------------------------------------------------- C15

func runC15(prop, tier string) int {
	rule := "cases = in-place generations with -out inside the source package (moq_gen.go / mocks_test.go names, several generated files per package) on alias-feedback heavy trees: (a) the same command run three times with the file left in place, all three outputs must be byte-identical; (b) with -rm, for each prior content of -out in {absent, own output, output for an older version of the interface, arbitrary bytes, invalid UTF-8, Go file of another package, syntax error} the result must equal the clean-tree output, and the strace ledger must show the unlink before the first go list exec; distinct = distinct (interface shape, configuration, prior state); non-trivial = at least one method"
	run := evid.New(prop, tier, "exploration", rule)
	run.Assumptions = []string{"the scratch module's go.mod is complete, so the go command itself rewrites nothing"}
	work, err := runner.NewWork(prop)
	if err != nil {
		return 2
	}
	defer os.RemoveAll(work)
	mq, err := runner.Build(work)
	if err != nil {
		fmt.Println(err)
		return 2
	}
	ntrees := 3
	if tier == "thorough" {
		ntrees = 30
	}
	ntrees = treesFromEnv(ntrees)
	seed := evid.Seed()
	hz := currentHazards()
	type c15job struct {
		t *gen.Tree
		c *gen.Case
		k int
	}
	var js []c15job
	for i := 0; i < ntrees; i++ {
		prof := gen.ProfRegen
		if i%3 == 1 {
			// no package named sync in the tree: a parameter may then be called sync, a name only the generated file imports
			prof.Name, prof.NoSync, prof.SrcName = "regen-nosync", true, "store"
		}
		t := gen.NewTree(seed*100103+int64(i), prof, hz)
		rng := rand.New(rand.NewSource(seed*977 + int64(i)))
		o := gen.DefaultCaseOpts
		o.PerIface, o.Multi, o.OtherDest = 1, 2, 0
		o.SameName = hz.SamePkgName
		for k, c := range gen.Cases(t, rng, o) {
			if c.Dest != 0 && c.Dest != 1 {
				continue
			}
			js = append(js, c15job{t, c, k})
		}
	}
	// same-named packages imported bare by different source files, both interfaces mocked into one file whose name
	// sorts before, between or after those files
	mt := gen.NewMatrixTree("stale-regen", hz)
	mo := gen.DefaultCaseOpts
	mo.PerIface, mo.Multi, mo.OtherDest = 0, 0, 0
	for k, c := range gen.Cases(mt, rand.New(rand.NewSource(seed)), mo) {
		if c.Dest == 0 || c.Dest == 1 {
			js = append(js, c15job{mt, c, 3 + k%3}) // f0_zmock.go, a_mock.go, f1_zmock.go
		}
	}
	priors := []string{"absent", "own", "older", "garbage", "badutf8", "otherpkg", "syntaxerr"}
	runner.ParallelW(len(js), 16, func(worker, i int) {
		j := js[i]
		c := j.c
		root := filepath.Join(work, fmt.Sprintf("w%02d_t%d", worker, j.t.Seed))
		reset := func() {
			os.RemoveAll(root)
			j.t.WriteTo(root)
		}
		reset()
		cwd := cwdOf(root, c)
		// names that sort before, between and after the source files (f0.go f1.go f2.go types.go): aliases are
		// harvested file by file in name order
		outName := []string{"moq_gen.go", "mocks_test.go", "zz_mock.go", "f0_zmock.go", "a_mock.go", "f1_zmock.go"}[j.k%6]
		if j.t.Profile != "matrix-stale-regen" && j.k%6 >= 3 {
			// on random trees only names that sort after the importing source files: a generated file that is read
			// before them triggers the open findings KF-regeneration-out-sorts-first / -inconsistent-aliases; the
			// early-sorting names are exercised on the stale-regen matrix tree, which has neither shape
			outName = []string{"moq_gen.go", "zz_mock.go", "mocks_test.go"}[j.k%3]
		}
		if outName == "mocks_test.go" && (j.k%2 == 0 || (len(c.Ifaces[0].Tags) > 0 && c.Ifaces[0].Tags[0] == "fixed")) {
			// a _test.go file is not loaded by the next run: the fixed point is then trivial. Kept for some random
			// interfaces only; the fixed shapes are always regenerated over a file the next run reads
			outName = "moq_gen.go"
		}
		if os.Getenv("VERIF_TRACE") != "" {
			fmt.Printf("TRACE C15 seed=%d k=%d out=%s argv=%v\n", j.t.Seed, j.k, outName, c.Args())
		}
		outRel := outName
		if c.CwdRoot {
			outRel = filepath.Join(j.t.SrcDir, outName)
		}
		outAbs := filepath.Join(root, j.t.SrcDir, outName)
		args := append([]string{"-out", outRel}, c.Args()...)
		// reference: clean tree, stdout mode
		ref := mq.Run(cwd, c.Args(), runner.Opts{})
		if ref.TimedOut {
			run.Inconc("watchdog")
			return
		}
		if ref.Exit != 0 {
			run.Inconc("moq rejected a corpus case: " + firstLine(string(ref.Stderr)))
			fmt.Printf("INCONCLUSIVE: moq exit=%d on seed=%d %v: %s\n", ref.Exit, j.t.Seed, c.Args(), firstLine(string(ref.Stderr)))
			return
		}
		nm := 0
		for _, ifc := range c.Ifaces {
			nm += len(ifc.Methods) + len(ifc.Embeds)
		}
		key := func(extra string) string {
			if nm == 0 {
				return ""
			}
			return c.Key() + "|" + extra
		}
		// (a) fixed point
		var gens [][]byte
		var fail string
		for r := 0; r < 3; r++ {
			res := mq.Run(cwd, args, runner.Opts{})
			if res.Exit != 0 {
				fail = fmt.Sprintf("run %d of the same command fails with the earlier output in place: %s", r+1, firstLine(string(res.Stderr)))
				break
			}
			b, _ := os.ReadFile(outAbs)
			gens = append(gens, b)
		}
		run.Eval(key("fixedpoint"))
		run.Add("regenerations", len(gens))
		if i%29 == 0 {
			d := c.Describe()
			d["out"] = outRel
			run.Sample(d)
		}
		report := func(what string, extra map[string]string) {
			files := replayFiles(c, ref, nil)
			for k, v := range extra {
				files[k] = v
			}
			files["REPLAY.sh"] = fmt.Sprintf("cd tree/%s && moq %s   # repeat with the file left in place\n", map[bool]string{true: ".", false: j.t.SrcDir}[c.CwdRoot], shellJoin(args))
			run.Violation(fmt.Sprintf("seed=%d argv=%v :: %s", j.t.Seed, args, what), files)
		}
		switch {
		case fail != "":
			report(fail, nil)
		case !bytes.Equal(gens[0], ref.Stdout):
			report("first -out file differs from the stdout-mode output of the same request: "+firstDiff(ref.Stdout, gens[0]), map[string]string{"run1.go.txt": string(gens[0])})
		case !bytes.Equal(gens[0], gens[1]) || !bytes.Equal(gens[1], gens[2]):
			d := firstDiff(gens[0], gens[1])
			if bytes.Equal(gens[0], gens[1]) {
				d = "(run 2 vs 3) " + firstDiff(gens[1], gens[2])
			}
			report("regenerating with the earlier output in place changes the file: "+d, map[string]string{"run1.go.txt": string(gens[0]), "run2.go.txt": string(gens[1]), "run3.go.txt": string(gens[2])})
		}
		// (b) -rm independence of prior content
		rmArgs := append([]string{"-rm"}, args...)
		np := len(priors)
		if tier == "quick" {
			np = 2
		}
		for pi := 0; pi < np; pi++ {
			pr := priors[(pi+i)%len(priors)]
			reset()
			var content []byte
			switch pr {
			case "own":
				content = ref.Stdout
			case "older":
				content = []byte(strings.Replace(string(ref.Stdout), "func (mock *", "func (mock *Stale", 1) + "\nvar _ = undefinedStaleSymbol\n")
			case "garbage":
				content = []byte("this is not go \x00 at all {{{\n")
			case "badutf8":
				content = []byte("package " + j.t.SrcName + "\n\nvar s = \"\xff\xfe\"\n// \xc3\x28\n")
			case "otherpkg":
				content = []byte("package somethingelse\n\nfunc F() {}\n")
			case "syntaxerr":
				content = []byte("package " + j.t.SrcName + "\n\nfunc broken( {\n")
			}
			if pr != "absent" {
				os.WriteFile(outAbs, content, 0o644)
			}
			// the same file and the same source directory under other spellings
			rmArgs := rmArgs
			spelling := "as-is"
			switch (pi + i) % 4 {
			case 1:
				spelling = "absolute-out"
				rmArgs = append([]string{"-rm", "-out", outAbs}, c.Args()...)
			case 2:
				spelling = "dotdot-out"
				if c.CwdRoot {
					rmArgs = append([]string{"-rm", "-out", "./" + outRel}, c.Args()...)
				} else {
					rmArgs = append([]string{"-rm", "-out", "../" + filepath.Base(j.t.SrcDir) + "/" + outName}, c.Args()...)
				}
			case 3:
				spelling = "absolute-source-dir"
				rmArgs = append([]string{}, rmArgs...)
				for ai, a := range rmArgs {
					if (a == "." && !c.CwdRoot) || (a == "./"+j.t.SrcDir && c.CwdRoot) {
						rmArgs[ai] = filepath.Join(root, j.t.SrcDir)
					}
				}
			}
			run.Add("rm_runs_spelling_"+spelling, 1)
			var res runner.Result
			var order []string
			traced := (tier == "thorough" && (i+pi)%2 == 0) || (i+pi)%5 == 0
			if traced {
				tr := cli.Trace{LogPath: filepath.Join(work, fmt.Sprintf("c15_%02d.strace", worker))}
				res, _, order, _ = cli.RunTraced(mq, cwd, rmArgs, tr, runner.Opts{}, root)
				os.Remove(tr.LogPath)
			} else {
				res = mq.Run(cwd, rmArgs, runner.Opts{})
			}
			if traced && res.Exit != 0 && bytes.Contains(res.Stderr, []byte("strace:")) {
				run.Inconc("strace failed: " + firstLine(string(res.Stderr)))
				continue
			}
			run.Eval(key("rm-prior-" + pr))
			run.Add("rm_runs_prior_"+pr, 1)
			if res.Exit != 0 {
				report(fmt.Sprintf("-rm with prior content %q at -out fails: %s", pr, firstLine(string(res.Stderr))), map[string]string{"prior_content.txt": string(content)})
				continue
			}
			got, _ := os.ReadFile(outAbs)
			if !bytes.Equal(got, ref.Stdout) {
				report(fmt.Sprintf("-rm with prior content %q at -out gives a different result than the clean tree: %s", pr, firstDiff(ref.Stdout, got)), map[string]string{"prior_content.txt": string(content), "got.go.txt": string(got)})
			}
			if traced && pr != "absent" {
				run.Add("rm_runs_with_ledger", 1)
				unlinkAt, listAt := -1, -1
				for k, o := range order {
					if unlinkAt < 0 && strings.HasPrefix(o, "mod:unlink") && strings.Contains(o, outAbs) {
						unlinkAt = k
					}
					if listAt < 0 && strings.HasPrefix(o, "exec:") && strings.Contains(o, "\"list\"") {
						listAt = k
					}
				}
				if unlinkAt < 0 || (listAt >= 0 && unlinkAt > listAt) {
					report(fmt.Sprintf("-rm: the -out file is not removed before the package is loaded (unlink at event %d, first go list at event %d)", unlinkAt, listAt), map[string]string{"ledger.txt": strings.Join(order, "\n")})
				}
			}
		}
	})
	runKnownC15(run, mq, work)
	return run.Finish()
}

// runKnownC15 re-runs the concrete inputs of open regeneration findings.
func runKnownC15(run *evid.Run, mq *runner.Moq, work string) {
	for _, k := range loadKnown().Findings {
		if k.Status != "open" {
			continue
		}
		listed := false
		for _, p := range k.Properties {
			if p == "C15" {
				listed = true
			}
		}
		if !listed {
			continue
		}
		kc, files, ok := readKnownCase(k)
		if !ok {
			continue
		}
		dst := filepath.Join(work, "known-"+k.ID)
		for rel, content := range files {
			p := filepath.Join(dst, rel)
			os.MkdirAll(filepath.Dir(p), 0o755)
			os.WriteFile(p, []byte(content), 0o644)
		}
		cwd := filepath.Join(dst, kc.Cwd)
		outName := "moq_gen.go"
		var extra struct {
			OutName string `json:"out_name"`
		}
		if b, err := os.ReadFile(filepath.Join(evid.Root(), k.Dir, "case.json")); err == nil && json.Unmarshal(b, &extra) == nil && extra.OutName != "" {
			outName = extra.OutName
		}
		args := append([]string{"-out", outName}, kc.Argv...)
		var gens []string
		for r := 0; r < 3; r++ {
			res := mq.Run(cwd, args, runner.Opts{})
			b, _ := os.ReadFile(filepath.Join(cwd, outName))
			if res.Exit != 0 {
				b = []byte("<exit " + fmt.Sprint(res.Exit) + "> " + firstLine(string(res.Stderr)))
			}
			gens = append(gens, string(b))
		}
		if gens[0] != gens[1] || gens[1] != gens[2] {
			d := firstDiff([]byte(gens[0]), []byte(gens[1]))
			if gens[0] == gens[1] {
				d = firstDiff([]byte(gens[1]), []byte(gens[2]))
			}
			run.Known(k.ID, k.Title+" :: "+d)
		}
	}
}
