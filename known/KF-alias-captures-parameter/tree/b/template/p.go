package template

type Template struct{}
