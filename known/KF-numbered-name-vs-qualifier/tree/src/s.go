package src

import v2 "example.com/kfv/lib/v2"

type Doer interface {
	Do(v2.Item, uint, uint)
}
