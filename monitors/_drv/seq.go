package drv

import (
	"fmt"
	"math/rand"
	"reflect"
	"strings"

	"VERIFMOD/isync"
)

type callRec struct {
	args []reflect.Value
}

type pending struct {
	method   string
	args     []reflect.Value
	gid      uint64
	invoked  int
	results  []reflect.Value
	panicVal *panicValue
	nilFunc  bool
}

type panicValue struct{ tok int64 }

type retained struct {
	method string
	slice  reflect.Value
	want   []callRec
	at     int
}

type seqState struct {
	in       *instance
	rng      *rand.Rand
	model    map[string][]callRec
	hist     []string
	stack    []*pending
	depth    int
	kept     []retained
	opN      int
	inNil    bool
	quiet    bool // scripted history: no nested operations, no panics
	reported map[string]bool
}

func (s *seqState) viol(prop, meth, msg string) {
	k := prop + "|" + meth + "|" + msg
	if s.reported[k] {
		return
	}
	s.reported[k] = true
	violation(prop, s.in.e.Name, meth, msg, s.hist)
}

func (s *seqState) log(format string, a ...any) {
	s.hist = append(s.hist, fmt.Sprintf("#%d ", s.opN)+strings.Repeat("  ", s.depth)+fmt.Sprintf(format, a...))
	if len(s.hist) > 40 {
		s.hist = s.hist[len(s.hist)-40:]
	}
}

func (s *seqState) top(m string) *pending {
	for i := len(s.stack) - 1; i >= 0; i-- {
		if s.stack[i].method == m {
			return s.stack[i]
		}
		// only the innermost pending call may be delegated
		return nil
	}
	return nil
}

func zeros(t reflect.Type) []reflect.Value {
	out := make([]reflect.Value, t.NumOut())
	for i := range out {
		out[i] = reflect.Zero(t.Out(i))
	}
	return out
}

// install sets every function field to a monitoring stub.
func (s *seqState) install() {
	for _, m := range s.in.methods {
		m := m
		s.in.field(m.Name).Set(reflect.MakeFunc(m.Sig, func(args []reflect.Value) []reflect.Value {
			p := s.top(m.Name)
			if p == nil {
				prop := "C03"
				if s.inNil {
					prop = "C07"
				}
				s.viol(prop, m.Name, fmt.Sprintf("%sFunc was invoked although the pending call is %s", m.Name, s.pendingName()))
				return zeros(m.Sig)
			}
			p.invoked++
			if p.invoked > 1 {
				s.viol("C03", m.Name, fmt.Sprintf("%sFunc invoked %d times for one call", m.Name, p.invoked))
			}
			if g := isync.GID(); g != p.gid {
				s.viol("C03", m.Name, fmt.Sprintf("%sFunc ran on goroutine %d, the caller is goroutine %d", m.Name, g, p.gid))
			}
			if len(args) != len(p.args) {
				s.viol("C03", m.Name, fmt.Sprintf("%sFunc received %d arguments, %d were passed", m.Name, len(args), len(p.args)))
			} else {
				for i := range args {
					if !same(p.args[i], args[i], 0) {
						s.viol("C03", m.Name, fmt.Sprintf("argument %d of %s: passed %s, %sFunc received %s", i, m.Name, describe(p.args[i]), m.Name, describe(args[i])))
					}
				}
			}
			count("callbacks_checked", 1)
			// the call must already be recorded and be the last record
			if s.quiet {
				// scripted history: the callback does not read the accessor (a read is an operation of its own)
				if p.panicVal != nil {
					panic(p.panicVal)
				}
				return p.results
			}
			recs := s.in.calls(m.Name).Call(nil)[0]
			want := s.model[m.Name]
			if recs.Len() != len(want) {
				s.viol("C04", m.Name, fmt.Sprintf("inside %sFunc: %sCalls() has %d records, %d calls were made (the current call must be visible)", m.Name, m.Name, recs.Len(), len(want)))
			} else if recs.Len() > 0 && !recordMatches(recs.Index(recs.Len()-1), p.args) {
				s.viol("C04", m.Name, fmt.Sprintf("inside %sFunc: the last record of %sCalls() is not the current call", m.Name, m.Name))
			}
			// now and then the callback itself uses the mock
			if !s.quiet && s.depth < 2 && s.rng.Intn(4) == 0 {
				s.depth++
				for k := 0; k < 1+s.rng.Intn(2); k++ {
					s.randomOp(true)
				}
				s.depth--
			}
			if p.panicVal != nil {
				panic(p.panicVal)
			}
			return p.results
		}))
	}
}

func (s *seqState) pendingName() string {
	if len(s.stack) == 0 {
		return "<none>"
	}
	return s.stack[len(s.stack)-1].method
}

func recordMatches(rec reflect.Value, args []reflect.Value) bool {
	if rec.Kind() != reflect.Struct || rec.NumField() != len(args) {
		return false
	}
	for j := range args {
		if !same(args[j], rec.Field(j), 0) {
			return false
		}
	}
	return true
}

func (s *seqState) method() method { return s.in.methods[s.rng.Intn(len(s.in.methods))] }

func (s *seqState) randomOp(nested bool) {
	if len(s.in.methods) == 0 {
		return
	}
	s.opN++
	r := s.rng.Intn(100)
	switch {
	case r < 50:
		s.doCall(s.method(), false)
	case r < 62 && !nested:
		s.doCall(s.method(), true)
	case r < 82:
		s.doRead(s.method())
	case r < 92 && s.in.e.Resets:
		s.doReset(s.method().Name)
	case s.in.e.Resets:
		s.doReset("")
	default:
		s.doRead(s.method())
	}
	s.verifyKept()
}

func (s *seqState) doCall(m method, nilFunc bool) {
	n := m.Sig.NumIn()
	args := make([]reflect.Value, n)
	for i := 0; i < n; i++ {
		args[i] = synth(m.Sig.In(i), nextToken(), 0)
	}
	if m.Variadic && s.rng.Intn(4) == 0 {
		args[n-1] = reflect.Zero(m.Sig.In(n - 1)) // nil variadic tail
	}
	for i := 0; i < n; i++ {
		if nilable(m.Sig.In(i)) && s.rng.Intn(8) == 0 {
			args[i] = reflect.Zero(m.Sig.In(i)) // nil slices, maps, pointers, interfaces, funcs and chans are values too
			count("nil_arguments_passed", 1)
		}
	}
	p := &pending{method: m.Name, args: args, gid: isync.GID(), nilFunc: nilFunc}
	for i := 0; i < m.Sig.NumOut(); i++ {
		if nilable(m.Sig.Out(i)) && s.rng.Intn(4) == 0 {
			p.results = append(p.results, reflect.Zero(m.Sig.Out(i))) // whatever MFunc returns, nil included, is what the caller must see
			count("nil_results_returned", 1)
			continue
		}
		p.results = append(p.results, synth(m.Sig.Out(i), nextToken(), 0))
	}
	if !nilFunc && !s.quiet && s.rng.Intn(6) == 0 {
		p.panicVal = &panicValue{tok: nextToken()}
	}
	var savedField reflect.Value
	if nilFunc {
		savedField = reflect.ValueOf(s.in.field(m.Name).Interface())
		s.in.field(m.Name).Set(reflect.Zero(m.Sig))
		s.inNil = true
	}
	before := len(s.model[m.Name])
	s.model[m.Name] = append(s.model[m.Name], callRec{args: args})
	s.stack = append(s.stack, p)
	s.log("call %s nilFunc=%v panic=%v", m.Name, nilFunc, p.panicVal != nil)
	var got []reflect.Value
	var recovered any
	panicked := true
	func() {
		defer func() {
			if panicked {
				recovered = recover()
			}
		}()
		if m.Variadic {
			got = s.in.meth(m.Name).CallSlice(args)
		} else {
			got = s.in.meth(m.Name).Call(args)
		}
		panicked = false
	}()
	s.stack = s.stack[:len(s.stack)-1]
	count("calls_made", 1)
	if d, ok := recovered.(isync.Deadlock); ok {
		s.viol("C06", m.Name, "calling "+m.Name+": "+d.Msg)
		// the record may or may not exist; resynchronise
		s.resync(m.Name)
		return
	}
	if nilFunc {
		s.inNil = false
		s.in.field(m.Name).Set(savedField)
		count("nil_func_calls", 1)
		if s.in.e.Stub {
			if panicked {
				s.viol("C07", m.Name, fmt.Sprintf("-stub mock panicked on a nil %sFunc: %v", m.Name, recovered))
				s.resync(m.Name)
				return
			}
			for i, g := range got {
				if !reflect.DeepEqual(safeIface(g), safeIface(reflect.Zero(m.Sig.Out(i)))) || !g.IsZero() {
					s.viol("C07", m.Name, fmt.Sprintf("-stub mock with nil %sFunc returned non-zero result %d: %s", m.Name, i, describe(g)))
				}
			}
			// recorded like any other call: the model already holds it
			s.checkOne(m.Name, "C07", "after a stubbed call with nil "+m.Name+"Func")
			return
		}
		if !panicked {
			s.viol("C07", m.Name, fmt.Sprintf("calling %s with nil %sFunc did not panic", m.Name, m.Name))
		} else {
			msg := fmt.Sprint(recovered)
			for _, need := range []string{s.in.e.Name, m.Name + "Func", s.in.e.Iface + "." + m.Name} {
				if !strings.Contains(msg, need) {
					s.viol("C07", m.Name, fmt.Sprintf("panic message %q of a nil %sFunc does not mention %q", msg, m.Name, need))
				}
			}
			if _, isRuntime := recovered.(interface{ RuntimeError() }); isRuntime {
				s.viol("C07", m.Name, fmt.Sprintf("nil %sFunc caused a runtime error instead of the identifying panic: %v", m.Name, recovered))
			}
		}
		// whether a default-mode nil call is recorded is not asserted: adopt what the mock did
		if recs := s.in.calls(m.Name).Call(nil)[0]; recs.Len() == before {
			s.model[m.Name] = s.model[m.Name][:before]
		}
		return
	}
	if p.invoked != 1 {
		s.viol("C03", m.Name, fmt.Sprintf("%sFunc was invoked %d times by one call of %s", m.Name, p.invoked, m.Name))
	}
	if p.panicVal != nil {
		if !panicked {
			s.viol("C03", m.Name, m.Name+"Func panicked but the caller of "+m.Name+" saw a normal return")
		} else if pv, ok := recovered.(*panicValue); !ok || pv != p.panicVal {
			s.viol("C03", m.Name, fmt.Sprintf("%sFunc panicked with %v, the caller recovered %v", m.Name, p.panicVal, recovered))
		}
		// C04: stays recorded if MFunc panics (checked by the model comparison below)
		s.checkOne(m.Name, "C04", "after "+m.Name+"Func panicked")
		return
	}
	if panicked {
		s.viol("C03", m.Name, fmt.Sprintf("call of %s panicked although %sFunc returned normally: %v", m.Name, m.Name, recovered))
		s.resync(m.Name)
		return
	}
	if len(got) != len(p.results) {
		s.viol("C03", m.Name, fmt.Sprintf("%s returned %d values, %sFunc returned %d", m.Name, len(got), m.Name, len(p.results)))
		return
	}
	for i := range got {
		if !same(p.results[i], got[i], 0) {
			s.viol("C03", m.Name, fmt.Sprintf("result %d of %s: %sFunc returned %s, the caller got %s", i, m.Name, m.Name, describe(p.results[i]), describe(got[i])))
		}
	}
}

func nilable(t reflect.Type) bool {
	switch t.Kind() {
	case reflect.Slice, reflect.Map, reflect.Pointer, reflect.Interface, reflect.Func, reflect.Chan:
		return true
	}
	return false
}

// aroundReset is a scripted history: k calls, a read, a reset, exactly k further calls, a read. Records of
// equal number before and after a reset are the case a length-validated cache or a reused backing array gets wrong.
func (s *seqState) aroundReset(global bool) {
	m := s.method()
	k := 1 + s.rng.Intn(3)
	s.quiet = true
	defer func() { s.quiet = false }()
	for i := 0; i < k; i++ {
		s.opN++
		s.doCall(m, false)
	}
	s.opN++
	s.doRead(m)
	s.opN++
	// no read between the reset and the next calls
	if global {
		s.doResetOpt("", false)
	} else {
		s.doResetOpt(m.Name, false)
	}
	for i := 0; i < k; i++ {
		s.opN++
		s.doCall(m, false)
	}
	s.opN++
	s.log("read %sCalls (same number of calls as before the reset)", m.Name)
	s.checkOne(m.Name, "C04", "read after a reset and as many calls as before it")
	s.verifyKept()
	count("around_reset_scripts", 1)
}

// resync adopts the mock's own record count after an aborted operation.
func (s *seqState) resync(m string) {
	func() {
		defer func() { recover() }()
		recs := s.in.calls(m).Call(nil)[0]
		if recs.Len() < len(s.model[m]) {
			s.model[m] = s.model[m][:recs.Len()]
		}
	}()
}

func (s *seqState) checkOne(m, prop, when string) bool {
	var recs reflect.Value
	var dl any
	func() {
		defer func() { dl = recover() }()
		recs = s.in.calls(m).Call(nil)[0]
	}()
	if d, ok := dl.(isync.Deadlock); ok {
		s.viol("C06", m, m+"Calls(): "+d.Msg)
		return false
	}
	if dl != nil {
		s.viol(prop, m, fmt.Sprintf("%sCalls() panicked: %v", m, dl))
		return false
	}
	count("accessor_reads_checked", 1)
	want := s.model[m]
	if recs.Len() != len(want) {
		s.viol(prop, m, fmt.Sprintf("%s: %sCalls() has %d records, the model has %d", when, m, recs.Len(), len(want)))
		return false
	}
	for i := range want {
		if !recordMatches(recs.Index(i), want[i].args) {
			var fs []string
			r := recs.Index(i)
			for j := 0; j < r.NumField(); j++ {
				fs = append(fs, describe(r.Field(j)))
			}
			var ws []string
			for _, a := range want[i].args {
				ws = append(ws, describe(a))
			}
			s.viol(prop, m, fmt.Sprintf("%s: record %d of %sCalls() is {%s}, call %d was made with (%s)", when, i, m, strings.Join(fs, ", "), i, strings.Join(ws, ", ")))
			return false
		}
	}
	return true
}

func (s *seqState) checkAll(prop, when string) {
	for _, m := range s.in.methods {
		s.checkOne(m.Name, prop, when)
	}
}

func (s *seqState) doRead(m method) {
	s.log("read %sCalls", m.Name)
	if s.checkOne(m.Name, "C04", "read") && s.rng.Intn(3) == 0 {
		recs := s.in.calls(m.Name).Call(nil)[0]
		s.kept = append(s.kept, retained{method: m.Name, slice: recs, want: append([]callRec{}, s.model[m.Name]...), at: s.opN})
		if len(s.kept) > 12 {
			s.kept = s.kept[1:]
		}
	}
}

func (s *seqState) verifyKept() {
	for _, k := range s.kept {
		ok := k.slice.Len() == len(k.want)
		for i := 0; ok && i < len(k.want); i++ {
			ok = recordMatches(k.slice.Index(i), k.want[i].args)
		}
		count("retained_snapshots_rechecked", 1)
		if !ok {
			s.viol("C04", k.method, fmt.Sprintf("a slice returned by %sCalls() at op #%d (%d records) was changed by later operations", k.method, k.at, len(k.want)))
		}
	}
}

func (s *seqState) doReset(m string) { s.doResetOpt(m, true) }

// doResetOpt resets and, unless told otherwise, reads every accessor back at once (a read right after the reset is
// itself an operation: histories that must not contain it pass check=false and compare later).
func (s *seqState) doResetOpt(m string, check bool) {
	name := "ResetCalls"
	if m != "" {
		name = "Reset" + m + "Calls"
	}
	fn := s.in.mock.MethodByName(name)
	if !fn.IsValid() {
		s.viol("C08", m, "mock generated with -with-resets has no method "+name)
		return
	}
	s.log("%s", name)
	var dl any
	func() {
		defer func() { dl = recover() }()
		fn.Call(nil)
	}()
	if d, ok := dl.(isync.Deadlock); ok {
		s.viol("C06", m, name+"(): "+d.Msg)
		return
	}
	count("resets_made", 1)
	if m != "" {
		s.model[m] = nil
	} else {
		for k := range s.model {
			s.model[k] = nil
		}
	}
	if check {
		s.checkAll("C08", "after "+name+"()")
	}
}

// runSeq runs sequential histories against the list model.
func runSeq(e Entry, rng *rand.Rand, ops, rounds int) {
	for r := 0; r < rounds; r++ {
		in, problems := newInstance(e)
		for _, p := range problems {
			if strings.HasPrefix(p, "C04:") {
				violation("C04", e.Name, "", p[4:], nil)
				continue
			}
			violation("C02", e.Name, "", p, nil)
		}
		s := &seqState{in: in, rng: rng, model: map[string][]callRec{}, reported: map[string]bool{}}
		// reset API presence
		for _, m := range in.methods {
			has := in.mock.MethodByName("Reset" + m.Name + "Calls").IsValid()
			if has != e.Resets {
				violation("C08", e.Name, m.Name, fmt.Sprintf("Reset%sCalls present=%v, -with-resets=%v", m.Name, has, e.Resets), nil)
			}
		}
		if has := in.mock.MethodByName("ResetCalls").IsValid(); has != e.Resets {
			violation("C08", e.Name, "", fmt.Sprintf("ResetCalls present=%v, -with-resets=%v", has, e.Resets), nil)
		}
		// the zero-value mock reports no calls
		s.checkAll("C04", "zero-value mock")
		s.install()
		if e.Resets && len(in.methods) > 0 {
			s.aroundReset(r%2 == 0)
			s.aroundReset(r%2 == 1)
		}
		for i := 0; i < ops; i++ {
			s.randomOp(false)
			if held := isync.Held(isync.GID()); len(held) > 0 {
				s.viol("C06", "", fmt.Sprintf("locks still held after an operation returned: %v", held))
				break
			}
		}
		s.checkAll("C04", "end of history")
		count("sequential_histories", 1)
		count("operations", int64(s.opN))
	}
}
