package kfl

type Number interface{ ~int | ~float64 }
