package drv

import (
	"bufio"
	"encoding/json"
	"fmt"
	"math/rand"
	"os"
	"reflect"
	"sort"
	"strconv"
	"strings"
	"sync"
)

// Entry registers one generated mock with the driver.
type Entry struct {
	Name      string       // mock type name (as requested from moq)
	Iface     string       // interface name
	New       func() any   // pointer to a zero-value mock
	IfaceType reflect.Type // the (instantiated) interface type
	Stub      bool
	Resets    bool
	File      string // emitted file
}

var entries []Entry

// Register adds a mock.
func Register(e Entry) { entries = append(entries, e) }

type method struct {
	Name     string
	Sig      reflect.Type // func type of the function field
	Variadic bool
	TokParam int // index of the first token-capable parameter, -1 if none
}

type instance struct {
	e       Entry
	mock    reflect.Value // pointer
	methods []method
}

func (in *instance) field(m string) reflect.Value { return in.mock.Elem().FieldByName(m + "Func") }
func (in *instance) meth(m string) reflect.Value  { return in.mock.MethodByName(m) }
func (in *instance) calls(m string) reflect.Value { return in.mock.MethodByName(m + "Calls") }

// newInstance creates a fresh zero-value mock and resolves its reflective handles. Structural defects are
// returned as messages (they belong to C02/C04/C08 depending on what is missing).
func newInstance(e Entry) (*instance, []string) {
	in := &instance{e: e, mock: reflect.ValueOf(e.New())}
	var problems []string
	it := e.IfaceType
	for i := 0; i < it.NumMethod(); i++ {
		m := it.Method(i)
		if m.PkgPath != "" {
			continue // unexported: reflection cannot drive it
		}
		f := in.field(m.Name)
		if !f.IsValid() {
			problems = append(problems, fmt.Sprintf("no field %sFunc", m.Name))
			continue
		}
		if !in.meth(m.Name).IsValid() {
			problems = append(problems, fmt.Sprintf("no method %s", m.Name))
			continue
		}
		if !in.calls(m.Name).IsValid() {
			problems = append(problems, fmt.Sprintf("C04:no accessor %sCalls for method %s", m.Name, m.Name))
			continue
		}
		md := method{Name: m.Name, Sig: f.Type(), Variadic: f.Type().IsVariadic(), TokParam: -1}
		for p := 0; p < md.Sig.NumIn(); p++ {
			if md.Variadic && p == md.Sig.NumIn()-1 {
				break
			}
			if tokenCapable(md.Sig.In(p)) {
				md.TokParam = p
				break
			}
		}
		in.methods = append(in.methods, md)
	}
	sort.Slice(in.methods, func(i, j int) bool { return in.methods[i].Name < in.methods[j].Name })
	return in, problems
}

// ---- output

var (
	outMu sync.Mutex
	out   = bufio.NewWriterSize(os.Stdout, 1<<16)
)

func emit(v map[string]any) {
	outMu.Lock()
	defer outMu.Unlock()
	b, err := json.Marshal(v)
	if err != nil {
		b, _ = json.Marshal(map[string]any{"t": "error", "msg": err.Error()})
	}
	out.Write(b)
	out.WriteByte('\n')
	out.Flush()
}

func violation(prop, mock, meth, msg string, hist []string) {
	if len(hist) > 12 {
		hist = hist[len(hist)-12:]
	}
	emit(map[string]any{"t": "viol", "prop": prop, "mock": mock, "method": meth, "msg": msg, "hist": hist})
}

var counters = map[string]int64{}
var cmu sync.Mutex

func count(name string, n int64) {
	cmu.Lock()
	counters[name] += n
	cmu.Unlock()
}

// Main is the entry point of the generated rtmain binary: rtmain <mode> <seed> [key=value ...]
func Main() {
	if len(os.Args) < 3 {
		fmt.Fprintln(os.Stderr, "usage: rtmain <seq|conc|lock|dfs> <seed> [k=v ...]")
		os.Exit(3)
	}
	mode := os.Args[1]
	seed, _ := strconv.ParseInt(os.Args[2], 10, 64)
	params := map[string]string{}
	for _, kv := range os.Args[3:] {
		if i := strings.IndexByte(kv, '='); i > 0 {
			params[kv[:i]] = kv[i+1:]
		}
	}
	geti := func(k string, def int) int {
		if v, ok := params[k]; ok {
			n, _ := strconv.Atoi(v)
			return n
		}
		return def
	}
	only := params["only"]
	skip := map[string]bool{}
	for _, s := range strings.Split(params["skip"], ",") {
		if s != "" {
			skip[s] = true
		}
	}
	sort.Slice(entries, func(i, j int) bool { return entries[i].Name < entries[j].Name })
	if n := geti("pick", 0); n > 0 && n < len(entries) {
		// a spread of n mocks, rotated by the seed
		var sel []Entry
		off := int(seed % int64(len(entries)))
		if off < 0 {
			off = -off
		}
		for k := 0; k < n; k++ {
			sel = append(sel, entries[(off+k*len(entries)/n)%len(entries)])
		}
		entries = sel
	}
	for idx, e := range entries {
		if only != "" && e.Name != only {
			continue
		}
		if skip[e.Name] {
			continue
		}
		rng := rand.New(rand.NewSource(seed*1000003 + int64(idx)))
		emit(map[string]any{"t": "progress", "mock": e.Name, "mode": mode})
		switch mode {
		case "seq":
			runSeq(e, rng, geti("ops", 60), geti("rounds", 2))
		case "conc":
			runConc(e, rng, geti("histories", 4), geti("ops", 30))
			runResetRace(e, rng, geti("resetrace", 300))
		case "lock":
			runLock(e, rng, geti("stress", 4), params["real"] == "1")
		case "dfs":
			runDFS(e, rng, geti("maxexec", 3000))
		}
	}
	cmu.Lock()
	st := map[string]any{"t": "stat"}
	for k, v := range counters {
		st[k] = v
	}
	cmu.Unlock()
	emit(st)
}
