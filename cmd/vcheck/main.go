package main

import (
	_ "github.com/anishathalye/porcupine"
	_ "github.com/matryer/moq/pkg/moq"
	_ "golang.org/x/tools/go/packages"
)

func main() {}
