module example.com/kfo

go 1.24
