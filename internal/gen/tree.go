package gen

import (
	"fmt"
	"math/rand"
	"sort"
	"strings"
)

// Dep is a package the source package can refer to.
type Dep struct {
	Path string // import path
	Dir  string // directory relative to the tree root ("" for std)
	Name string // package name
	Std  bool
	UID  string // unique suffix used for method names of its embeddable interface

	Struct  string   // struct type name
	Ifaces  []string // interface type names (usable as values)
	Embed   string   // interface with a unique method, for embedding
	EmbedMethods []string // method names Embed contributes
	Func    string   // func type
	Gen     string   // generic struct type, one type parameter
	Num     string   // named integer type with String()
	Constr  string   // union constraint
	StrIf   string   // method constraint: interface{ String() string }
	Extra   []string // further plain named types (std)
	needsAlias bool  // some file had to alias it: every file does
	Fixed    bool    // part of every tree (used by a fixed interface)
	GenAlias string  // generic alias over an unnamed type: type List[E any] = []E
	Transient *Dep   // Embed mentions types of this package
	Transients []*Dep // further packages the Embed interface mentions inside one func type (same-named ones preferred)

	SrcAlias string // alias the source files use: "" none, "." dot
	AltAlias string // a second alias, used by the odd-numbered source files (one path under two names)
	ExtraFiles map[string]string // further files of the package (build-constrained variants)
}

// Hazards switches on input shapes that trigger known (open) findings. All false by default: the random
// corpus then never contains them. A shape is switched on when its defect is fixed in /repo.
type Hazards struct {
	SanitiseEqualPaths bool // a: import paths equal after sanitising
	SamePkgName        bool // b: -pkg <source package name>
	UserNameCapture    bool // c,d: user parameter named like a type / builtin / mock / callInfo
	NumberedDup        bool // e: user-named numbered variants colliding with generated numbering
	CaseFoldFields     bool // f: two parameters whose exported forms coincide
	NonASCIIName       bool // g
	LowerTypeParam     bool // h
	HardSelfCheck      bool // i: constraints whose representative type argument is wrong (without -skip-ensure)
	UnsafePointer      bool // k
	MethodNameClash    bool // m
	DigitLeadingDir    bool // q
	StdSingleClash     bool // a': local package named like a single-element std path (sync, context) added before it
	GoimportsMismatch  bool // s: -fmt goimports with an unaliased import whose package name differs from its path base
	NumberedVsQualifier bool // u: a source alias of the form <stem><digits> (v1, v2) where moq numbers unnamed parameters with that stem
	RegenAliasFeedback bool // o: parameter named like a package that is re-aliased later; the alias is read back on regeneration
	AliasCapture       bool // t: user parameter named like an alias moq may generate later for an import
	UnionNamedTerm     bool // r: inline union constraint with a named term (import discovery misses unions)
}

// Profile weights the generator.
type Profile struct {
	Name       string
	NDeps      int     // local dependency packages
	NIfaces    int
	SameNames  float64 // probability that a dependency re-uses an earlier package name
	Aliases    float64 // probability that the source aliases an import
	Collide    float64 // probability that a user parameter name comes from the collision pools
	Generic    float64 // probability that an interface is generic
	MaxDepth   int
	Runtime    bool // restrict to shapes the runtime driver can drive (exported methods, exported local types)
	SrcName    string // force the source package name ("" = random)
	SrcClash   bool   // source directory differs from the package name and a dependency shares the source package's name
	Cluster    bool   // three same-named packages reached only through one func type of a hub package's interface
	CRLF       bool // every file of the source package uses CRLF line endings
	NoSync     bool // no package of the tree is named sync (so that a parameter may be)
	Regen      bool // regeneration corpus: while KF-regeneration-alias-feedback is open, no parameter name (user-written
	// or type-derived) may equal the name of a dependency package (such a parameter is renamed in the first run
	// only when the package is re-aliased later, and the alias is then read back from the generated file)
}

var (
	ProfGeneral = Profile{Name: "general", NDeps: 5, NIfaces: 8, SameNames: 0.3, Aliases: 0.25, Collide: 0.3, Generic: 0.25, MaxDepth: 3}
	ProfImports = Profile{Name: "imports", NDeps: 9, NIfaces: 8, SameNames: 0.7, Aliases: 0.4, Collide: 0.4, Generic: 0.1, MaxDepth: 2}
	ProfNaming  = Profile{Name: "naming", NDeps: 4, NIfaces: 10, SameNames: 0.4, Aliases: 0.3, Collide: 0.9, Generic: 0.1, MaxDepth: 2}
	ProfGeneric = Profile{Name: "generic", NDeps: 4, NIfaces: 8, SameNames: 0.3, Aliases: 0.2, Collide: 0.3, Generic: 0.9, MaxDepth: 2}
	ProfRegen   = Profile{Name: "regen", NDeps: 8, NIfaces: 10, SameNames: 0.6, Aliases: 0.35, Collide: 0.4, Generic: 0.15, MaxDepth: 2, Regen: true}
	ProfCluster = Profile{Name: "cluster", NDeps: 3, NIfaces: 6, SameNames: 0.2, Aliases: 0.2, Collide: 0.3, Generic: 0.1, MaxDepth: 2, Cluster: true}
	ProfRuntime = Profile{Name: "runtime", NDeps: 4, NIfaces: 7, SameNames: 0.3, Aliases: 0.2, Collide: 0.3, Generic: 0.25, MaxDepth: 2, Runtime: true}
)

// Profiles in the order used by corpus builders.
var Profiles = []Profile{ProfGeneral, ProfImports, ProfNaming, ProfGeneric}

// Tree is one scratch source tree.
type Tree struct {
	Seed     int64
	Profile  string
	ModPath  string
	Files    map[string]string
	SrcDir   string // relative directory of the source package
	SrcName  string
	SrcPath  string
	Deps     []*Dep // local dependencies
	Hidden   []*Dep // packages the source never imports itself (reached transiently only)
	Std      []*Dep // std packages made available
	Ifaces   []*Iface
	Locals   Locals
	OtherPkg string // name of an existing sibling package usable as -pkg destination (directory SrcDir/<name>)
	FixedRequests [][]string // multi-interface requests (interface names) every case list includes
	ExtraDecls string // additional declarations appended to the source package's types.go
	NameMismatch bool // some dependency's package name differs from what goimports assumes from its path
}

// Locals names the local declarations of the source package.
type Locals struct {
	Struct, Func, Slice, Map, Chan, Gen, Key, Alias, StrIf, Union, Secret, Const, Emb, EmbMethod string
	GenBase string // generic local interface usable for embedding
	LowerAlias string // unexported alias spelled like its target: type person = Person
	GenStore string // generic local interface with two parameters (instantiated through aliases / defined types)
}

// Param is a parameter or result.
type Param struct {
	Name string // "" unnamed, "_" blank
	Type *T
}

// Method of an interface.
type Method struct {
	Name     string
	Params   []Param
	Results  []Param
	Variadic bool
}

// TParam is a type parameter.
type TParam struct {
	Name       string
	Constraint *T     // nil = any
	CKind      string // any, method, union, depunion, depmethod, ordered, comparable, tildeSliceOf, hybrid, namedunion
	Comparable bool   // usable as a map key
	Arg        *T     // a concrete type argument satisfying the constraint (used by the runtime drivers)
}

// Iface is a generated interface declaration.
type Iface struct {
	Name       string
	TParams    []TParam
	Methods    []Method
	Embeds     []*T
	File       int
	Exportable bool // can be mocked into another package
	IsAlias    bool // declared as `type Name = Other`
	IsDefined  bool // declared as `type Name Other` (defined type over an interface type)
	AliasOf    string
	NeedsSkipEnsure bool // only valid with -skip-ensure (hazard i shapes)
	Tags       []string
}

func (i *Iface) NumOwnMethods() int { return len(i.Methods) }

// Shape is a name-free fingerprint of the interface.
func (i *Iface) Shape() string {
	var b strings.Builder
	for _, tp := range i.TParams {
		b.WriteString("[" + tp.CKind + "]")
	}
	for _, e := range i.Embeds {
		b.WriteString("E" + e.Shape())
	}
	for _, m := range i.Methods {
		b.WriteString("M")
		for _, p := range m.Params {
			b.WriteString(nameMode(p.Name) + p.Type.Shape() + ",")
		}
		if m.Variadic {
			b.WriteString("...")
		}
		b.WriteString("->")
		for _, p := range m.Results {
			b.WriteString(nameMode(p.Name) + p.Type.Shape() + ",")
		}
	}
	if i.IsAlias {
		b.WriteString("=alias")
	}
	return b.String()
}

func nameMode(n string) string {
	switch n {
	case "":
		return "u:"
	case "_":
		return "_:"
	}
	return "n:"
}

var stdDeps = []*Dep{
	{Path: "context", Name: "context", Std: true, Ifaces: []string{"Context"}},
	{Path: "io", Name: "io", Std: true, Ifaces: []string{"Reader", "Writer"}, Embed: "Closer", EmbedMethods: []string{"Close"}},
	{Path: "time", Name: "time", Std: true, Struct: "Time", Num: "Duration"},
	{Path: "net/http", Name: "http", Std: true, Struct: "Request", Ifaces: []string{"Handler"}, Extra: []string{"Header"}},
	{Path: "text/template", Name: "template", Std: true, Struct: "Template"},
	{Path: "html/template", Name: "template", Std: true, Struct: "Template", Extra: []string{"HTML"}},
	{Path: "fmt", Name: "fmt", Std: true, Ifaces: []string{"Stringer"}, StrIf: "Stringer"},
	{Path: "os", Name: "os", Std: true, Struct: "File", Extra: []string{"FileMode"}},
	{Path: "encoding/json", Name: "json", Std: true, Ifaces: []string{"Marshaler"}, Extra: []string{"RawMessage"}},
	{Path: "net/url", Name: "url", Std: true, Struct: "URL", Extra: []string{"Values"}},
	{Path: "math/big", Name: "big", Std: true, Struct: "Int"},
	{Path: "sync", Name: "sync", Std: true, Ifaces: []string{"Locker"}},
	{Path: "cmp", Name: "cmp", Std: true, Constr: "Ordered"},
	{Path: "database/sql/driver", Name: "driver", Std: true, Ifaces: []string{"Value", "Valuer"}},
	{Path: "sort", Name: "sort", Std: true, Ifaces: []string{"Interface"}},
	{Path: "container/heap", Name: "heap", Std: true, Ifaces: []string{"Interface"}},
	{Path: "flag", Name: "flag", Std: true, Ifaces: []string{"Value"}},
	{Path: "encoding", Name: "encoding", Std: true, Ifaces: []string{"BinaryMarshaler", "TextUnmarshaler"}},
}

var unsafeDep = &Dep{Path: "unsafe", Name: "unsafe", Std: true, Extra: []string{"Pointer"}}

func stdByPath(p string) *Dep {
	if p == "unsafe" {
		return unsafeDep
	}
	for _, d := range stdDeps {
		if d.Path == p {
			return d
		}
	}
	return nil
}

var (
	depNamePool   = []string{"one", "two", "store", "model", "client", "util", "types", "api", "foo", "bar"}
	depVarLikePool = []string{"s", "n", "err", "fn", "val", "ctx", "b", "f", "v", "id", "sync", "json", "template", "context", "http"}
	depParentPool = []string{"a", "b", "c", "x/y", "internal/z", "pkg", "c/b", "third_party/a", "lib.v2", "go-kit", "kit-go", "multivendor", "govendor/x"}
	structNamePool = []string{"Thing", "Client", "Request", "Config", "Item", "Record", "T", "Time", "Context"}
	localStructPool = []string{"Person", "Account", "Order", "Entry", "Node"}
	srcNamePool   = []string{"store", "svc", "domain", "repo", "core", "sync", "http"}
)

// dirForms gives directory spellings that all carry package name n.
func dirForms(n string) []string {
	return []string{n, n, n, "go-" + n, n + "-go", n + ".v2", n + "_impl", strings.ToUpper(n[:1]) + n[1:], n + "/v2"}
}

type builder struct {
	genAliases map[string]bool // aliases moq's conflict resolution can generate for this tree's dependencies
	rng  *rand.Rand
	prof Profile
	hz   Hazards
	t    *Tree
	uid  int
}

// NewTree builds a tree from a seed and a profile.
func NewTree(seed int64, prof Profile, hz Hazards) *Tree {
	b := &builder{rng: rand.New(rand.NewSource(seed)), prof: prof, hz: hz}
	t := &Tree{Seed: seed, Profile: prof.Name, Files: map[string]string{}}
	b.t = t
	if b.rng.Intn(8) == 0 {
		t.ModPath = fmt.Sprintf("m%d", b.rng.Intn(1000)) // single element module path
	} else {
		t.ModPath = fmt.Sprintf("example.com/m%d", b.rng.Intn(1000))
	}
	t.Files["go.mod"] = "module " + t.ModPath + "\n\ngo 1.24\n"
	t.SrcName = srcNamePool[b.rng.Intn(len(srcNamePool))]
	if prof.SrcName != "" {
		t.SrcName = prof.SrcName
	}
	switch b.rng.Intn(4) {
	case 0:
		t.SrcDir = t.SrcName
	case 1:
		t.SrcDir = "internal/" + t.SrcName
	case 2:
		t.SrcDir = "pkg/" + t.SrcName + "-go" // directory name differs from the package name
	default:
		t.SrcDir = "src/" + t.SrcName
	}
	if prof.SrcClash {
		// a directory that is a different identifier than the package name (store in pkg/storehouse): when a
		// dependency shares the package name, moq's aliases are exactly the last path elements
		t.SrcDir = "pkg/" + t.SrcName + "house"
	}
	t.SrcPath = t.ModPath + "/" + t.SrcDir
	b.makeDeps()
	b.makeLocals()
	b.makeIfaces()
	b.addFixed()
	b.render()
	return t
}

func (b *builder) pick(ss []string) string { return ss[b.rng.Intn(len(ss))] }
func (b *builder) chance(p float64) bool   { return b.rng.Float64() < p }

func (b *builder) nextUID() string { b.uid++; return fmt.Sprintf("%d", b.uid) }

func (b *builder) makeDeps() {
	t := b.t
	usedDirs := map[string]bool{t.SrcDir: true}
	sanitised := map[string]bool{sanitisePath(t.SrcPath): true} // the source package is imported too when mocking into another package
	var names []string
	if b.prof.Cluster {
		// a/one, b/one, c/b/one: same name, never imported by the source package itself
		var cluster []*Dep
		for _, dir := range []string{"a/one", "b/one", "c/b/one"} {
			uid := b.nextUID()
			usedDirs[dir] = true
			sanitised[sanitisePath(t.ModPath+"/"+dir)] = true
			cluster = append(cluster, &Dep{Path: t.ModPath + "/" + dir, Dir: dir, Name: "one", UID: uid, Struct: "Item", Ifaces: []string{"Iface"},
				Embed: "Emb" + uid, EmbedMethods: []string{"Em" + uid}, Func: "Func", Gen: "Gen", Num: "Num", Constr: "Constr", StrIf: "Str", GenAlias: "List"})
		}
		t.Hidden = cluster
		uid := b.nextUID()
		usedDirs["hub"] = true
		hub := &Dep{Path: t.ModPath + "/hub", Dir: "hub", Name: "hub", UID: uid, Struct: "Hub", Ifaces: []string{"Iface"},
			Embed: "Emb" + uid, EmbedMethods: []string{"Em" + uid}, Func: "Func", Gen: "Gen", Num: "Num", Constr: "Constr", StrIf: "Str", GenAlias: "List",
			Transient: cluster[0], Transients: cluster}
		t.Deps = append(t.Deps, hub)
		names = append(names, "hub")
	}
	for i := 0; i < b.prof.NDeps; i++ {
		var name string
		switch {
		case b.prof.SrcClash && i == 0:
			name = t.SrcName // a dependency named like the source package
		case len(names) > 0 && b.chance(b.prof.SameNames):
			name = b.pick(names)
		case b.chance(0.25) && !(b.prof.Regen && !b.hz.RegenAliasFeedback):
			name = b.pick(depVarLikePool)
			if !b.hz.StdSingleClash && (name == "sync" || name == "context") {
				name = "json"
			}
		default:
			name = b.pick(depNamePool)
			if b.prof.Regen && !b.hz.RegenAliasFeedback {
				name = b.pick([]string{"one", "two", "util", "api", "foo", "bar", "sync", "sync", "json"}) // not the de-capitalised form of any type name
			}
		}
		if b.prof.NoSync && name == "sync" {
			name = "util"
		}
		var dir string
		for try := 0; ; try++ {
			forms := dirForms(name)
			form := b.pick(forms)
			if !b.hz.NumberedVsQualifier && strings.HasSuffix(form, "/v2") {
				// on a name conflict moq aliases .../val/v2 as v2, which the numbered names v1, v2 of unnamed
				// parameters are not checked against (KF-numbered-name-vs-qualifier)
				form = name + "/vtwo"
			}
			dir = b.pick(depParentPool) + "/" + form
			if try > 20 {
				dir = fmt.Sprintf("u%d/%s", i, name)
			}
			key := sanitisePath(t.ModPath + "/" + dir)
			if usedDirs[dir] || (!b.hz.SanitiseEqualPaths && sanitised[key]) {
				continue
			}
			// a directory must not be nested below another package directory's "v2" child etc. — harmless, allow.
			usedDirs[dir] = true
			sanitised[key] = true
			break
		}
		names = append(names, name)
		uid := b.nextUID()
		d := &Dep{
			Path: t.ModPath + "/" + dir, Dir: dir, Name: name, UID: uid,
			Struct: b.pick(structNamePool), Ifaces: []string{"Iface"}, Embed: "Emb" + uid, EmbedMethods: []string{"Em" + uid},
			Func: "Func", Gen: "Gen", Num: "Num", Constr: "Constr", StrIf: "Str", GenAlias: "List",
		}
		if len(t.Deps) > 0 && b.chance(0.35) {
			d.Transient = t.Deps[b.rng.Intn(len(t.Deps))]
			// a single func type over several packages that share a name, none of them imported by the source
			byName := map[string][]*Dep{}
			for _, o := range t.Deps {
				byName[o.Name] = append(byName[o.Name], o)
			}
			var best []*Dep
			for _, o := range t.Deps { // deterministic order
				if g := byName[o.Name]; len(g) > len(best) {
					best = g
				}
			}
			if len(best) >= 2 && b.chance(0.6) {
				if len(best) > 3 {
					best = best[:3]
				}
				d.Transients = best
			}
		}
		if b.chance(b.prof.Aliases) {
			d.SrcAlias = b.pick([]string{name + "x", "my" + name, "p" + uid, name + "2", "s", "err", "ctx", "n", "v1"})
			// an alias equal to the last path element while the package name differs (v2 ".../lib/v2", foo_impl)
			if base := dir[strings.LastIndex(dir, "/")+1:]; base != name && isIdent(base) && base == strings.ToLower(base) && b.chance(0.4) {
				d.SrcAlias = base
			}
			// an alias that merely repeats the package's own name (thing ".../thing_impl")
			if b.chance(0.12) {
				d.SrcAlias = name
			}
			// an alias that is another dependency's package name (the other one imported bare in another file)
			if len(names) > 1 && b.chance(0.2) {
				if o := names[b.rng.Intn(len(names)-1)]; o != name {
					d.SrcAlias = o
				}
			}
			if !b.hz.NumberedVsQualifier && looksNumbered(d.SrcAlias) {
				d.SrcAlias = name + "x"
			}
			if b.chance(0.15) {
				d.SrcAlias = "."
			}
		}
		t.Deps = append(t.Deps, d)
		if assumedName(d.Path) != d.Name && (d.SrcAlias == "" || d.SrcAlias == ".") {
			t.NameMismatch = true
		}
	}
	if !b.prof.Cluster && !strings.HasPrefix(b.prof.Name, "matrix") {
		// a package whose name differs from its directory, imported by the source under an alias that merely repeats
		// the package's own name
		uid := b.nextUID()
		t.Deps = append(t.Deps, &Dep{Path: t.ModPath + "/fx/thing_impl", Dir: "fx/thing_impl", Name: "thing", UID: uid, SrcAlias: "thing", Fixed: true,
			Struct: "Widget", Ifaces: []string{"Iface"}, Embed: "Emb" + uid, EmbedMethods: []string{"Em" + uid}, Func: "Func", Gen: "Gen", Num: "Num", Constr: "Constr", StrIf: "Str", GenAlias: "List"})
		if !b.prof.Runtime {
			// a package whose interface differs between build configurations: the cgo build has one more method and a
			// variadic parameter where the !cgo build has a slice (the mock must match what `go build` will see)
			uid := b.nextUID()
			t.Deps = append(t.Deps, &Dep{Path: t.ModPath + "/fx/driver", Dir: "fx/driver", Name: "driver", UID: uid,
				Struct: "Row", Ifaces: []string{"Iface"}, Embed: "Emb" + uid, EmbedMethods: []string{"Em" + uid}, Func: "Func", Gen: "Gen", Num: "Num", Constr: "Constr", StrIf: "Str", GenAlias: "List",
				ExtraFiles: map[string]string{
					"conn_cgo.go":   "//go:build cgo\n\npackage driver\n\n// Conn as the cgo-backed driver offers it.\ntype Conn interface {\n\tQuery(q string, args ...any) (Row, error)\n\tBackup(dst string) error\n}\n",
					"conn_nocgo.go": "//go:build !cgo\n\npackage driver\n\n// Conn of the pure-Go fallback.\ntype Conn interface {\n\tQuery(q string, args []any) (Row, error)\n}\n",
				}})
		}
		if !b.prof.Regen {
			// one import path that two source files import under two different names (not in the regeneration corpus:
			// KF-regeneration-inconsistent-aliases)
			uid := b.nextUID()
			t.Deps = append(t.Deps, &Dep{Path: t.ModPath + "/fx/gadget", Dir: "fx/gadget", Name: "gadget", UID: uid, SrcAlias: "gad", AltAlias: "gdg",
				Struct: "Widget", Ifaces: []string{"Iface"}, Embed: "Emb" + uid, EmbedMethods: []string{"Em" + uid}, Func: "Func", Gen: "Gen", Num: "Num", Constr: "Constr", StrIf: "Str", GenAlias: "List"})
		}
	}
	b.genAliases = map[string]bool{}
	for _, d := range t.Deps {
		parts := strings.Split(d.Path, "/")
		name := ""
		for i := len(parts) - 1; i >= 0; i-- {
			name = strings.ToLower(sanitiser.Replace(parts[i])) + name
			if name != d.Name {
				b.genAliases[name] = true
			}
		}
	}
	// std packages
	perm := b.rng.Perm(len(stdDeps))
	n := 4 + b.rng.Intn(4)
	for _, i := range perm[:n] {
		d := *stdDeps[i]
		if b.prof.Regen && !b.hz.RegenAliasFeedback && d.Path == "html/template" {
			continue // text/template + html/template: an unnamed template.Template parameter is the open finding's shape
		}
		if b.prof.NoSync && d.Path == "sync" {
			continue
		}
		if b.chance(b.prof.Aliases / 2) {
			d.SrcAlias = b.pick([]string{"std" + d.Name, d.Name + "pkg", "x"})
		}
		t.Std = append(t.Std, &d)
	}
	if b.hz.UnsafePointer && b.chance(0.3) {
		d := *unsafeDep
		t.Std = append(t.Std, &d)
	}
	// dot-imported packages need type names that do not collide with anything local: make them unique.
	for _, d := range t.Deps {
		if d.SrcAlias == "." {
			d.Struct = "Dot" + d.UID + d.Struct
			d.Ifaces = []string{"Dot" + d.UID + "Iface"}
			d.Func = "Dot" + d.UID + "Func"
			d.Gen = "Dot" + d.UID + "Gen"
			d.GenAlias = "Dot" + d.UID + "List"
			d.Num = "Dot" + d.UID + "Num"
			d.Constr = "Dot" + d.UID + "Constr"
			d.StrIf = "Dot" + d.UID + "Str"
		}
	}
}

var sanitiser = strings.NewReplacer("go-", "", "-go", "", "-", "", "_", "", ".", "", "@", "", "+", "", "~", "")

func sanitisePath(p string) string {
	parts := strings.Split(p, "/")
	for i := range parts {
		parts[i] = strings.ToLower(sanitiser.Replace(parts[i]))
	}
	return strings.Join(parts, "/")
}

func (b *builder) makeLocals() {
	l := &b.t.Locals
	l.Struct = b.pick(localStructPool)
	l.Func = "Handler"
	l.Slice = "IDs"
	l.Map = "Table"
	l.Chan = "Pipe"
	l.Gen = "Box"
	l.Key = "Key"
	l.Alias = l.Struct + "Alias"
	l.StrIf = "Stringer"
	l.Union = "Number"
	l.Secret = "secret"
	l.Const = "Size"
	l.Emb = "LocalEmb"
	l.EmbMethod = "LocalEm"
	l.GenBase = "GenBase"
	l.GenStore = "GenStore"
	l.LowerAlias = strings.ToLower(l.Struct[:1]) + l.Struct[1:]
}

func (b *builder) depSource(d *Dep) string {
	var s strings.Builder
	fmt.Fprintf(&s, "package %s\n\n", d.Name)
	if d.Transient != nil {
		fmt.Fprintf(&s, "import (\n\ttr %q\n", d.Transient.Path)
		for i, o := range d.Transients {
			fmt.Fprintf(&s, "\ttr%d %q\n", i, o.Path)
		}
		s.WriteString(")\n\n")
	}
	fmt.Fprintf(&s, "type %s struct{ V int }\n\n", d.Struct)
	fmt.Fprintf(&s, "type %s interface{ M%s() string }\n\n", d.Ifaces[0], d.UID)
	fmt.Fprintf(&s, "type %s func(int) string\n\n", d.Func)
	fmt.Fprintf(&s, "type %s[E any] struct{ E E }\n\n", d.Gen)
	if !d.Std && d.GenAlias != "" {
		fmt.Fprintf(&s, "type %s[E any] = []E\n\n", d.GenAlias)
	}
	fmt.Fprintf(&s, "type %s int\n\nfunc (n %s) String() string { return \"\" }\n\n", d.Num, d.Num)
	fmt.Fprintf(&s, "type %s interface{ ~int | ~string }\n\n", d.Constr)
	fmt.Fprintf(&s, "type %s interface{ String() string }\n\n", d.StrIf)
	if d.Transient != nil {
		extra := ""
		if len(d.Transients) >= 2 {
			var ps []string
			for i, o := range d.Transients[1:] {
				ps = append(ps, fmt.Sprintf("tr%d.%s", i+1, o.Struct))
			}
			extra = fmt.Sprintf(", f func(%s) (tr0.%s, error)", strings.Join(ps, ", "), d.Transients[0].Struct)
		}
		fmt.Fprintf(&s, "type %s interface{ %s(x tr.%s, y *%s%s) (tr.%s, error) }\n", d.Embed, d.EmbedMethods[0], d.Transient.Struct, d.Struct, extra, d.Transient.Num)
	} else {
		fmt.Fprintf(&s, "type %s interface{ %s(x %s) (*%s, error) }\n", d.Embed, d.EmbedMethods[0], d.Struct, d.Struct)
	}
	return s.String()
}

// render writes all files of the tree.
func (b *builder) render() {
	t := b.t
	for _, d := range append(append([]*Dep{}, t.Deps...), t.Hidden...) {
		t.Files[d.Dir+"/"+"pkg.go"] = b.depSource(d)
		for name, src := range d.ExtraFiles {
			t.Files[d.Dir+"/"+name] = src
		}
	}
	l := t.Locals
	var ty strings.Builder
	fmt.Fprintf(&ty, "package %s\n\n", t.SrcName)
	fmt.Fprintf(&ty, "type %s struct{ Name string }\n\n", l.Struct)
	fmt.Fprintf(&ty, "type %s func(string) error\n\n", l.Func)
	fmt.Fprintf(&ty, "type %s []int\n\n", l.Slice)
	fmt.Fprintf(&ty, "type %s map[string]int\n\n", l.Map)
	fmt.Fprintf(&ty, "type %s chan int\n\n", l.Chan)
	fmt.Fprintf(&ty, "type %s[T any] struct{ V T }\n\n", l.Gen)
	fmt.Fprintf(&ty, "type %s int\n\nfunc (%s) String() string { return \"\" }\n\nfunc (k %s) Less(o %s) bool { return k < o }\n\n", l.Key, l.Key, l.Key, l.Key)
	fmt.Fprintf(&ty, "type %s = %s\n\n", l.Alias, l.Struct)
	fmt.Fprintf(&ty, "type %s = %s\n\n", l.LowerAlias, l.Struct)
	fmt.Fprintf(&ty, "type %s interface{ String() string }\n\n", l.StrIf)
	fmt.Fprintf(&ty, "type %s interface{ ~int | ~float64 }\n\n", l.Union)
	fmt.Fprintf(&ty, "type %s struct{ v int }\n\n", l.Secret)
	fmt.Fprintf(&ty, "const %s = 4\n\n", l.Const)
	fmt.Fprintf(&ty, "type %s interface{ %s(p %s) error }\n\n", l.Emb, l.EmbMethod, l.Struct)
	ty.WriteString("// local types named like std packages' types\ntype Time struct{ T int }\n\ntype Context struct{ C int }\n\n")
	fmt.Fprintf(&ty, "type %s[T any] interface{ Base(x T) T }\n\n", l.GenBase)
	fmt.Fprintf(&ty, "type %s[K comparable, V any] interface {\n\tLoad(k K) (V, bool)\n\tStore(k K, v V) error\n}\n", l.GenStore)
	t.Files[t.SrcDir+"/types.go"] = ty.String() + "\n" + t.ExtraDecls

	nfiles := 1
	for _, i := range t.Ifaces {
		if i.File+1 > nfiles {
			nfiles = i.File + 1
		}
	}
	// pre-pass: decide tree-wide which dependencies need the per-dependency fallback alias, so that one import
	// path has one alias in every file and one alias never names two paths
	usedIn := make([][]*Dep, nfiles)
	for f := 0; f < nfiles; f++ {
		seen := map[*Dep]bool{}
		for _, i := range t.Ifaces {
			if i.File != f {
				continue
			}
			i.walkTypes(func(x *T) {
				if x.Kind == KPkg && !seen[x.Pkg] {
					seen[x.Pkg] = true
					usedIn[f] = append(usedIn[f], x.Pkg)
				}
			})
		}
		sort.Slice(usedIn[f], func(i, j int) bool { return usedIn[f][i].Path < usedIn[f][j].Path })
	}
	qualOf := func(d *Dep) string {
		if d.needsAlias {
			if d.Std {
				return fmt.Sprintf("%sstd%d", d.Name, len(d.Path))
			}
			return fmt.Sprintf("%sq%s", d.Name, d.UID)
		}
		if d.SrcAlias != "" {
			return d.SrcAlias
		}
		return d.Name
	}
	for changed := true; changed; {
		changed = false
		for f := 0; f < nfiles; f++ {
			taken := map[string]bool{}
			for _, d := range usedIn[f] {
				if d.SrcAlias == "." {
					continue
				}
				q := qualOf(d)
				if taken[q] && !d.needsAlias {
					d.needsAlias = true
					changed = true
					q = qualOf(d)
				}
				taken[q] = true
			}
		}
	}
	for f := 0; f < nfiles; f++ {
		used := map[*Dep]bool{}
		for _, i := range t.Ifaces {
			if i.File != f {
				continue
			}
			i.walkTypes(func(x *T) {
				if x.Kind == KPkg {
					used[x.Pkg] = true
				}
			})
		}
		var deps []*Dep
		for d := range used {
			deps = append(deps, d)
		}
		sort.Slice(deps, func(i, j int) bool { return deps[i].Path < deps[j].Path })
		// choose file-level qualifiers: keep SrcAlias; resolve duplicate names within the file with an alias.
		quals := map[*Dep]string{}
		taken := map[string]bool{}
		for _, d := range deps {
			q := d.Name
			if d.SrcAlias == "." {
				quals[d] = ""
				continue
			}
			if d.SrcAlias != "" {
				q = d.SrcAlias
			}
			q = qualOf(d) // decided tree-wide in the pre-pass
			if d.AltAlias != "" && f%2 == 1 && !d.needsAlias {
				q = d.AltAlias
			}
			for n := 0; taken[q]; n++ {
				q = fmt.Sprintf("%sq%sx%d", d.Name, d.UID, n)
			}
			taken[q] = true
			quals[d] = q
		}
		q := func(d *Dep) string { return quals[d] }
		var s strings.Builder
		fmt.Fprintf(&s, "package %s\n\n", t.SrcName)
		if len(deps) > 0 || f == 0 {
			s.WriteString("import (\n")
			for _, d := range deps {
				switch {
				case d.SrcAlias == ".":
					fmt.Fprintf(&s, "\t. %q\n", d.Path)
				case quals[d] != d.Name || d.SrcAlias == d.Name:
					fmt.Fprintf(&s, "\t%s %q\n", quals[d], d.Path)
				default:
					fmt.Fprintf(&s, "\t%q\n", d.Path)
				}
			}
			if f == 0 {
				s.WriteString("\t_ \"embed\"\n") // a blank import in the source
			}
			s.WriteString(")\n\n")
		}
		for _, i := range t.Ifaces {
			if i.File == f {
				s.WriteString(i.Source(q))
				s.WriteString("\n")
			}
		}
		t.Files[fmt.Sprintf("%s/f%d.go", t.SrcDir, f)] = s.String()
	}
	// a last file that imports every explicitly aliased dependency once more, for its side effects only
	{
		seen := map[string]bool{}
		var blanks []string
		for f := 0; f < nfiles; f++ {
			for _, d := range usedIn[f] {
				if d.SrcAlias != "" && d.SrcAlias != "." && !seen[d.Path] {
					seen[d.Path] = true
					blanks = append(blanks, d.Path)
				}
			}
		}
		if len(blanks) > 0 {
			sort.Strings(blanks)
			var s strings.Builder
			fmt.Fprintf(&s, "package %s\n\nimport (\n", t.SrcName)
			for _, p := range blanks {
				fmt.Fprintf(&s, "\t_ %q\n", p)
			}
			s.WriteString(")\n")
			t.Files[t.SrcDir+"/zzz_register.go"] = s.String()
		}
	}
	if b.prof.CRLF {
		for name, src := range t.Files {
			if strings.HasPrefix(name, t.SrcDir+"/") && strings.HasSuffix(name, ".go") && !strings.Contains(name[len(t.SrcDir)+1:], "/") {
				t.Files[name] = strings.ReplaceAll(src, "\n", "\r\n")
			}
		}
	}
	// an existing sibling package that can serve as the destination of -pkg
	if b.chance(0.5) {
		t.OtherPkg = "mocks"
		t.Files[t.SrcDir+"/mocks/doc.go"] = "// Package mocks holds generated mocks.\npackage mocks\n"
	}
}

func (i *Iface) walkTypes(f func(*T)) {
	for _, tp := range i.TParams {
		tp.Constraint.Walk(f)
	}
	for _, e := range i.Embeds {
		e.Walk(f)
	}
	for _, m := range i.Methods {
		for _, p := range m.Params {
			p.Type.Walk(f)
		}
		for _, p := range m.Results {
			p.Type.Walk(f)
		}
	}
}

// Source renders the declaration.
func (i *Iface) Source(q Qual) string {
	if i.IsAlias {
		return fmt.Sprintf("type %s = %s\n", i.Name, i.AliasOf)
	}
	if i.IsDefined {
		return fmt.Sprintf("type %s %s\n", i.Name, i.AliasOf)
	}
	var s strings.Builder
	s.WriteString("type " + i.Name)
	if len(i.TParams) > 0 {
		var tps []string
		for _, tp := range i.TParams {
			c := "any"
			if tp.Constraint != nil {
				c = tp.Constraint.Render(q)
			}
			tps = append(tps, tp.Name+" "+c)
		}
		s.WriteString("[" + strings.Join(tps, ", ") + "]")
	}
	s.WriteString(" interface {\n")
	for _, e := range i.Embeds {
		s.WriteString("\t" + e.Render(q) + "\n")
	}
	for _, m := range i.Methods {
		s.WriteString("\t" + m.Name + "(" + renderParams(m.Params, m.Variadic, q) + ")")
		switch {
		case len(m.Results) == 0:
		case len(m.Results) == 1 && m.Results[0].Name == "":
			s.WriteString(" " + m.Results[0].Type.Render(q))
		default:
			s.WriteString(" (" + renderParams(m.Results, false, q) + ")")
		}
		s.WriteString("\n")
	}
	s.WriteString("}\n")
	return s.String()
}

func renderParams(ps []Param, variadic bool, q Qual) string {
	out := make([]string, len(ps))
	for i, p := range ps {
		ts := p.Type.Render(q)
		if variadic && i == len(ps)-1 {
			ts = "..." + p.Type.Elem.Render(q)
		}
		if p.Name != "" {
			out[i] = p.Name + " " + ts
		} else {
			out[i] = ts
		}
	}
	return strings.Join(out, ", ")
}

// AssumedName is the exported form of assumedName.
func AssumedName(importPath string) string { return assumedName(importPath) }

// assumedName mirrors how goimports guesses a package name from an import path when it cannot load it.
func assumedName(importPath string) string {
	parts := strings.Split(importPath, "/")
	base := parts[len(parts)-1]
	if len(base) > 1 && base[0] == 'v' && strings.Trim(base[1:], "0123456789") == "" && len(parts) > 1 {
		base = parts[len(parts)-2]
	}
	base = strings.TrimPrefix(base, "go-")
	for i, r := range base {
		if !(r == '_' || r >= 'a' && r <= 'z' || r >= 'A' && r <= 'Z' || r >= '0' && r <= '9' || r >= 0x80) {
			base = base[:i]
			break
		}
	}
	return base
}

func isIdent(s string) bool {
	if s == "" || goKeywords[s] {
		return false
	}
	for i, r := range s {
		if !(r == '_' || r >= 'a' && r <= 'z' || r >= 'A' && r <= 'Z' || (i > 0 && r >= '0' && r <= '9')) {
			return false
		}
	}
	return true
}

// looksNumbered reports whether an alias has the form <derived stem><digits>, the names moq hands out when it
// numbers unnamed parameters (v1, v2, s1, n2, ...).
func looksNumbered(a string) bool {
	stem := strings.TrimRight(a, "0123456789")
	if stem == a || stem == "" {
		return false
	}
	switch stem {
	case "v", "s", "n", "b", "f", "err", "fn", "val", "ifaceVal":
		return true
	}
	return false
}
