package mock

type T struct{}
