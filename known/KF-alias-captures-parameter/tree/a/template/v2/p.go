package template

type Emb struct{}
