#!/usr/bin/env python3
"""Rewrites the Summary paragraph of seeded/MATRIX.md from its rows (usage: matrix_summary.py [MATRIX.md])."""
import sys, re
p = sys.argv[1] if len(sys.argv) > 1 else 'seeded/MATRIX.md'
lines = open(p).read().split('\n')
rows = [l for l in lines if l.startswith('| C')]
own, anyc, inconc = {}, {}, []
for l in rows:
    r = [x.strip() for x in l.split('|')]
    mid, prop, chk, res = r[1], r[2], r[4].split()[0], r[5]
    c = res.startswith('caught')
    anyc[mid] = anyc.get(mid, False) or c
    if chk == prop:
        own[mid] = own.get(mid, False) or c
    if res.startswith('inconcl'):
        inconc.append(mid + '/' + chk)
ownmiss = [m for m in own if not own[m]]
elsewhere = [m for m in ownmiss if anyc[m]]
nowhere = [m for m in ownmiss if not anyc[m]]
s = "Summary: %d seeded changes; %d caught by the quick check of their own property, %d by the quick check of some\nproperty." % (len(own), sum(own.values()), sum(anyc.values()))
if elsewhere:
    s += " Own-property misses that a related check catches: " + ", ".join(elsewhere) + "."
if nowhere:
    s += " Missed by every check run: " + ", ".join(nowhere) + "."
if inconc:
    s += " Inconclusive (watchdog under load): " + ", ".join(inconc) + "."
s += " Rows are (change, check) pairs: the change's own\nproperty first, then the related properties listed in its meta.json."
head = [l for l in lines if l.startswith('# ')][:1]
table = [l for l in lines if l.startswith('|')]
open(p, 'w').write('\n'.join(head + ['', s, ''] + table) + '\n')
print(s)
