// Package gen builds scratch Go source trees (modules with dependency packages, a source package and
// interfaces) from a seed. It is the workload generator of every check; see DESIGN.md §2.1.
package gen

import (
	"fmt"
	"strings"
)

// Kind of a type node.
const (
	KBasic  = "basic"
	KLocal  = "local"  // named type of the source package
	KPkg    = "pkg"    // named type of a dependency / std package
	KTParam = "tparam" // type parameter of the interface
	KPtr    = "ptr"
	KSlice  = "slice"
	KArray  = "array"
	KMap    = "map"
	KChan   = "chan"
	KFunc   = "func"
	KStruct = "struct"
	KIface  = "iface"
	KTilde  = "tilde" // ~Elem, a term of a constraint
)

// T is a type expression as written in the source package.
type T struct {
	Kind     string
	Name     string // basic / local / tparam / pkg type name
	Pkg      *Dep   // KPkg
	Elem     *T
	Key      *T
	Dir      int    // chan: 0 both, 1 send-only, 2 recv-only
	ArrLen   string // literal or constant name
	Params   []*T   // func
	Results  []*T
	Variadic bool
	Fields   []Field // struct
	Methods  []IMethod
	Embeds   []*T // anonymous interface embeddeds
	Args     []*T // type arguments of a generic named type
	// classification flags of named types
	Unexported bool // mentions an unexported source-package identifier
}

// Field of an anonymous struct.
type Field struct {
	Name     string // "" = embedded
	Type     *T
	Tag      string
}

// IMethod is a method of an anonymous interface.
type IMethod struct {
	Name    string
	Params  []*T
	Results []*T
}

// Qual resolves the qualifier a file uses for a package ("" for dot imports).
type Qual func(d *Dep) string

// Render writes the type as source text.
func (t *T) Render(q Qual) string {
	switch t.Kind {
	case KLocal:
		// q(nil) is the qualifier of the source package itself ("" inside it)
		if lp := q(nil); lp != "" {
			return lp + "." + t.Name + renderArgs(t.Args, q)
		}
		return t.Name + renderArgs(t.Args, q)
	case KBasic, KTParam:
		return t.Name + renderArgs(t.Args, q)
	case KPkg:
		qq := q(t.Pkg)
		if strings.Contains(t.Name, "TIMEQ") {
			name := strings.ReplaceAll(t.Name, "TIMEQ.", "")
			if qq != "" {
				name = strings.ReplaceAll(t.Name, "TIMEQ", qq)
			}
			if qq == "" {
				return name
			}
			return qq + "." + name
		}
		if qq == "" {
			return t.Name + renderArgs(t.Args, q)
		}
		return qq + "." + t.Name + renderArgs(t.Args, q)
	case KPtr:
		return "*" + t.Elem.Render(q)
	case KTilde:
		return "~" + t.Elem.Render(q)
	case KSlice:
		return "[]" + t.Elem.Render(q)
	case KArray:
		return "[" + t.ArrLen + "]" + t.Elem.Render(q)
	case KMap:
		return "map[" + t.Key.Render(q) + "]" + t.Elem.Render(q)
	case KChan:
		switch t.Dir {
		case 1:
			return "chan<- " + t.Elem.Render(q)
		case 2:
			return "<-chan " + t.Elem.Render(q)
		}
		// a bidirectional chan of a receive-only chan needs parentheses
		if t.Elem.Kind == KChan && t.Elem.Dir == 2 {
			return "chan (" + t.Elem.Render(q) + ")"
		}
		return "chan " + t.Elem.Render(q)
	case KFunc:
		return "func" + renderSig(t.Params, t.Results, t.Variadic, q)
	case KStruct:
		var b strings.Builder
		b.WriteString("struct{")
		for i, f := range t.Fields {
			if i > 0 {
				b.WriteString("; ")
			}
			if f.Name != "" {
				b.WriteString(f.Name + " ")
			}
			b.WriteString(f.Type.Render(q))
			if f.Tag != "" {
				b.WriteString(" `" + f.Tag + "`")
			}
		}
		b.WriteString("}")
		return b.String()
	case KIface:
		var parts []string
		for _, e := range t.Embeds {
			parts = append(parts, e.Render(q))
		}
		for _, m := range t.Methods {
			parts = append(parts, m.Name+renderSig(m.Params, m.Results, false, q))
		}
		return "interface{" + strings.Join(parts, "; ") + "}"
	}
	panic("gen: unknown kind " + t.Kind)
}

func renderArgs(args []*T, q Qual) string {
	if len(args) == 0 {
		return ""
	}
	s := make([]string, len(args))
	for i, a := range args {
		s[i] = a.Render(q)
	}
	return "[" + strings.Join(s, ", ") + "]"
}

func renderSig(params, results []*T, variadic bool, q Qual) string {
	ps := make([]string, len(params))
	for i, p := range params {
		if variadic && i == len(params)-1 {
			ps[i] = "..." + p.Elem.Render(q)
		} else {
			ps[i] = p.Render(q)
		}
	}
	s := "(" + strings.Join(ps, ", ") + ")"
	switch len(results) {
	case 0:
	case 1:
		s += " " + results[0].Render(q)
	default:
		rs := make([]string, len(results))
		for i, r := range results {
			rs[i] = r.Render(q)
		}
		s += " (" + strings.Join(rs, ", ") + ")"
	}
	return s
}

// Walk visits t and all nested type nodes.
func (t *T) Walk(f func(*T)) {
	if t == nil {
		return
	}
	f(t)
	t.Elem.Walk(f)
	t.Key.Walk(f)
	for _, p := range t.Params {
		p.Walk(f)
	}
	for _, p := range t.Results {
		p.Walk(f)
	}
	for _, fl := range t.Fields {
		fl.Type.Walk(f)
	}
	for _, m := range t.Methods {
		for _, p := range m.Params {
			p.Walk(f)
		}
		for _, p := range m.Results {
			p.Walk(f)
		}
	}
	for _, e := range t.Embeds {
		e.Walk(f)
	}
	for _, a := range t.Args {
		a.Walk(f)
	}
}

// Shape is a name-free structural fingerprint used for coverage accounting.
func (t *T) Shape() string {
	switch t.Kind {
	case KBasic:
		return "b"
	case KLocal:
		if len(t.Args) > 0 {
			return "L" + shapes(t.Args)
		}
		return "L"
	case KPkg:
		s := "P"
		if t.Pkg.Std {
			s = "S"
		}
		if len(t.Args) > 0 {
			s += shapes(t.Args)
		}
		return s
	case KTParam:
		return "T"
	case KPtr:
		return "*" + t.Elem.Shape()
	case KTilde:
		return "~" + t.Elem.Shape()
	case KSlice:
		return "[]" + t.Elem.Shape()
	case KArray:
		return "[n]" + t.Elem.Shape()
	case KMap:
		return "m[" + t.Key.Shape() + "]" + t.Elem.Shape()
	case KChan:
		return fmt.Sprintf("c%d%s", t.Dir, t.Elem.Shape())
	case KFunc:
		v := ""
		if t.Variadic {
			v = "v"
		}
		return "f" + v + shapes(t.Params) + shapes(t.Results)
	case KStruct:
		var ts []*T
		for _, f := range t.Fields {
			ts = append(ts, f.Type)
		}
		return "s" + shapes(ts)
	case KIface:
		s := "i{"
		for _, m := range t.Methods {
			s += shapes(m.Params) + shapes(m.Results)
		}
		return s + shapes(t.Embeds) + "}"
	}
	return "?"
}

func shapes(ts []*T) string {
	s := make([]string, len(ts))
	for i, t := range ts {
		s[i] = t.Shape()
	}
	return "(" + strings.Join(s, ",") + ")"
}

func basic(n string) *T  { return &T{Kind: KBasic, Name: n} }
func ptr(e *T) *T        { return &T{Kind: KPtr, Elem: e} }
func slice(e *T) *T      { return &T{Kind: KSlice, Elem: e} }
func local(n string) *T  { return &T{Kind: KLocal, Name: n} }
func pkgT(d *Dep, n string) *T { return &T{Kind: KPkg, Pkg: d, Name: n} }
