// Package mocks holds generated mocks.
package mocks
