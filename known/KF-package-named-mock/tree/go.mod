module example.com/kfn

go 1.24
