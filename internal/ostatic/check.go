package ostatic

import (
	"fmt"
	"go/ast"
	"go/parser"
	"go/token"
	"go/types"
	"strings"
)

// Dest modes.
const (
	DestImplicit = iota // no -pkg: generated into the source package
	DestSameName        // -pkg <source package name>: generated into the source package
	DestOther           // -pkg <other>: a different package importing the source package
	DestTest            // -pkg <source>_test: the external test package
)

// Checked is an emitted file parsed and type-checked in its destination.
type Checked struct {
	Src      []byte
	Fset     *token.FileSet
	File     *ast.File
	ParseErr error
	Pkg      *types.Package
	Info     *types.Info
	TypeErrs []types.Error
	SrcPkg   *types.Package // the package that declares the interfaces, as seen from the output
	SrcPath  string
	InPlace  bool
}

// ErrStrings renders type errors with positions.
func (c *Checked) ErrStrings() []string {
	var out []string
	if c.ParseErr != nil {
		out = append(out, "parse: "+c.ParseErr.Error())
	}
	for _, e := range c.TypeErrs {
		out = append(out, fmt.Sprintf("%s: %s", c.Fset.Position(e.Pos), e.Msg))
	}
	return out
}

// CheckOutput type-checks output as the file `fileName` of the destination selected by dest.
func CheckOutput(t *Tree, srcPath string, dest int, pkgName string, output []byte) *Checked {
	c := &Checked{Src: output, Fset: t.Fset, SrcPath: srcPath, InPlace: dest == DestImplicit || dest == DestSameName}
	name := fmt.Sprintf("moq_out_%p.go", &output)
	f, err := parser.ParseFile(t.Fset, name, output, parser.ParseComments|parser.SkipObjectResolution)
	if err != nil {
		c.ParseErr = err
		return c
	}
	c.File = f
	c.Info = NewInfo()
	src := t.Pkgs[srcPath]
	if src == nil {
		c.ParseErr = fmt.Errorf("harness: source package %s not loaded", srcPath)
		return c
	}
	conf := types.Config{Error: func(err error) {
		if te, ok := err.(types.Error); ok {
			c.TypeErrs = append(c.TypeErrs, te)
		}
	}}
	if c.InPlace {
		files := append(append([]*ast.File{}, src.Files...), f)
		conf.Importer = t.Importer(srcPath)
		c.Pkg, _ = conf.Check(srcPath, t.Fset, files, c.Info)
		c.SrcPkg = c.Pkg
		// only errors located in the emitted file are moq's; the source files were clean when loaded.
		return c
	}
	conf.Importer = t.Importer("")
	dpath := srcPath + "/" + pkgName
	if dest == DestTest {
		dpath = srcPath + "_test"
	}
	c.Pkg, _ = conf.Check(dpath, t.Fset, []*ast.File{f}, c.Info)
	c.SrcPkg = src.Types
	return c
}

// InEmitted reports whether pos lies in the emitted file.
func (c *Checked) InEmitted(pos token.Pos) bool {
	return c.File != nil && pos >= c.File.Pos() && pos <= c.File.End()
}

// ImportSpec is one import of the emitted file.
type ImportSpec struct {
	Name string // "" when no explicit name
	Path string
	Spec *ast.ImportSpec
}

// Imports lists the import specs of the emitted file.
func (c *Checked) Imports() []ImportSpec {
	var out []ImportSpec
	if c.File == nil {
		return out
	}
	for _, im := range c.File.Imports {
		s := ImportSpec{Path: strings.Trim(im.Path.Value, "`\""), Spec: im}
		if im.Name != nil {
			s.Name = im.Name.Name
		}
		out = append(out, s)
	}
	return out
}

// MockDecl finds the type declaration of a mock by name.
func (c *Checked) MockDecl(name string) *ast.TypeSpec {
	if c.File == nil {
		return nil
	}
	for _, d := range c.File.Decls {
		gd, ok := d.(*ast.GenDecl)
		if !ok || gd.Tok != token.TYPE {
			continue
		}
		for _, s := range gd.Specs {
			ts := s.(*ast.TypeSpec)
			if ts.Name.Name == name {
				return ts
			}
		}
	}
	return nil
}

// TypeDeclNames lists top-level type declarations of the emitted file in order.
func (c *Checked) TypeDeclNames() []string {
	var out []string
	if c.File == nil {
		return out
	}
	for _, d := range c.File.Decls {
		gd, ok := d.(*ast.GenDecl)
		if !ok || gd.Tok != token.TYPE {
			continue
		}
		for _, s := range gd.Specs {
			out = append(out, s.(*ast.TypeSpec).Name.Name)
		}
	}
	return out
}

// recvTypeName returns the receiver's base type name of a method declaration.
func recvTypeName(fd *ast.FuncDecl) string {
	if fd.Recv == nil || len(fd.Recv.List) == 0 {
		return ""
	}
	e := fd.Recv.List[0].Type
	for {
		switch x := e.(type) {
		case *ast.StarExpr:
			e = x.X
		case *ast.ParenExpr:
			e = x.X
		case *ast.IndexExpr:
			e = x.X
		case *ast.IndexListExpr:
			e = x.X
		case *ast.Ident:
			return x.Name
		default:
			return ""
		}
	}
}

// MethodDecls returns the method declarations whose receiver is the named mock, by method name.
func (c *Checked) MethodDecls(mock string) map[string]*ast.FuncDecl {
	out := map[string]*ast.FuncDecl{}
	if c.File == nil {
		return out
	}
	for _, d := range c.File.Decls {
		if fd, ok := d.(*ast.FuncDecl); ok && recvTypeName(fd) == mock {
			out[fd.Name.Name] = fd
		}
	}
	return out
}
