// Package rt builds runtime batches: scratch modules whose emitted mocks are compiled together with the
// reflect-based driver (monitors/_drv) into plain, -race and instrumented-sync binaries, and runs them.
package rt

import (
	"bufio"
	"bytes"
	"encoding/json"
	"fmt"
	"go/parser"
	"go/token"
	"math/rand"
	"os"
	"os/exec"
	"path/filepath"
	"sort"
	"strings"
	"sync"
	"syscall"
	"time"

	"verif/internal/evid"
	"verif/internal/gen"
	"verif/internal/ostatic"
	"verif/internal/runner"
)

// MockSpec is one mock of a batch.
type MockSpec struct {
	Iface    *gen.Iface
	Name     string
	Stub     bool
	Resets   bool
	SkipEnsure bool
	Other    bool   // generated into the mocks package
	File     string // relative path of the emitted file
	Shape    string
}

// StaticFinding is a static-oracle finding about one request of the batch.
type StaticFinding struct {
	Mock string
	Prop string
	Msg  string
	Argv []string
}

// Batch is a built scratch module.
type Batch struct {
	Tree    *gen.Tree
	Root    string // plain variant
	IRoot   string // isync variant
	Mocks   []MockSpec
	Skipped []string // requests left out because the output does not type-check (C01's business)
	Static  []StaticFinding // what the static oracles say about every request of the batch (incl. the ones left out)
	Bins    map[string]string
}

func cfgArgs(stub, resets bool) []string {
	var a []string
	if stub {
		a = append(a, "-stub")
	}
	if resets {
		a = append(a, "-with-resets")
	}
	return a
}

// Build generates the mocks of a batch with the real moq binary and compiles the requested variants
// ("plain", "race", "isync").
func Build(work string, mq *runner.Moq, t *gen.Tree, rng *rand.Rand, variants []string, maxMocks int) (*Batch, error) {
	b := &Batch{Tree: t, Root: filepath.Join(work, "plain"), IRoot: filepath.Join(work, "isync"), Bins: map[string]string{}}
	if err := t.WriteTo(b.Root); err != nil {
		return nil, err
	}
	lt := ostatic.LoadTree(t.ModPath, t.Files)
	if len(lt.Errs) > 0 {
		return nil, fmt.Errorf("generated tree does not load: %v", lt.Errs)
	}
	type req struct {
		spec MockSpec
		more []MockSpec // further mocks of the same invocation (joint requests)
		args []string
		out  []byte
		ok   bool
		why  string
		static []StaticFinding
	}
	var reqs []*req
	cfgs := [][2]bool{{false, false}, {true, false}, {false, true}, {true, true}}
	k := 0
	for _, ifc := range t.Ifaces {
		if !ifc.Exportable || ifc.IsAlias {
			continue
		}
		for j := 0; j < 3; j++ {
			c := cfgs[(k+j)%4]
			other := j == 2
			name := fmt.Sprintf("%sR%d", ifc.Name, j)
			spec := MockSpec{Iface: ifc, Name: name, Stub: c[0], Resets: c[1], Other: other, Shape: ifc.Shape()}
			args := cfgArgs(c[0], c[1])
			if ifc.NeedsSkipEnsure || (k+j)%3 == 1 {
				args = append(args, "-skip-ensure")
				spec.SkipEnsure = true
			}
			if other {
				args = append(args, "-pkg", "mocks")
				spec.File = filepath.Join(t.SrcDir, "mocks", "zz_mock_"+strings.ToLower(name)+".go")
			} else {
				spec.File = filepath.Join(t.SrcDir, "zz_mock_"+strings.ToLower(name)+".go")
			}
			args = append(args, ".", ifc.Name+":"+name)
			reqs = append(reqs, &req{spec: spec, args: args})
		}
		k++
	}
	// joint requests: several interfaces mocked by ONE invocation into one file of the source package (state that moq
	// carries from one mock of a run to the next - caches, name sets, import aliases - only shows there)
	for jr, names := range t.FixedRequests {
		if jr >= 24 {
			break
		}
		c := cfgs[jr%4]
		args := cfgArgs(c[0], c[1])
		skip := jr%3 == 1
		var specs []MockSpec
		file := filepath.Join(t.SrcDir, fmt.Sprintf("zz_mock_joint%d.go", jr))
		okReq := len(names) > 0
		var pairs []string
		for _, n := range names {
			var ifc *gen.Iface
			for _, x := range t.Ifaces {
				if x.Name == n {
					ifc = x
				}
			}
			if ifc == nil || !ifc.Exportable || ifc.IsAlias {
				okReq = false
				break
			}
			if ifc.NeedsSkipEnsure {
				skip = true
			}
			name := fmt.Sprintf("%sJ%d", ifc.Name, jr)
			specs = append(specs, MockSpec{Iface: ifc, Name: name, Stub: c[0], Resets: c[1], File: file, Shape: ifc.Shape()})
			pairs = append(pairs, ifc.Name+":"+name)
		}
		if !okReq {
			continue
		}
		if skip {
			args = append(args, "-skip-ensure")
			for i := range specs {
				specs[i].SkipEnsure = true
			}
		}
		args = append(append(args, "."), pairs...)
		reqs = append(reqs, &req{spec: specs[0], more: specs[1:], args: args})
	}
	if maxMocks > 0 && len(reqs) > maxMocks {
		rng.Shuffle(len(reqs), func(i, j int) { reqs[i], reqs[j] = reqs[j], reqs[i] })
		reqs = reqs[:maxMocks]
	}
	runner.Parallel(len(reqs), 16, func(i int) {
		r := reqs[i]
		res := mq.Run(filepath.Join(b.Root, t.SrcDir), r.args, runner.Opts{})
		if res.Exit != 0 {
			r.why = "moq exit " + fmt.Sprint(res.Exit) + ": " + firstLine(string(res.Stderr))
			return
		}
		dest, pkg := ostatic.DestImplicit, ""
		if r.spec.Other {
			dest, pkg = ostatic.DestOther, "mocks"
		}
		chk := ostatic.CheckOutput(lt, t.SrcPath, dest, pkg, res.Stdout)
		pairs := []ostatic.NamePair{{Iface: r.spec.Iface.Name, Mock: r.spec.Name}}
		for _, x := range r.more {
			pairs = append(pairs, ostatic.NamePair{Iface: x.Iface.Name, Mock: x.Name})
		}
		fs, _ := ostatic.Analyse(chk, ostatic.Request{Ifaces: pairs, Stub: r.spec.Stub, WithResets: r.spec.Resets,
			SkipEnsure: r.spec.SkipEnsure, Dest: dest, PkgName: pkg})
		for _, f := range fs {
			r.static = append(r.static, StaticFinding{Mock: r.spec.Name, Prop: f.Prop, Msg: f.Msg, Argv: r.args})
		}
		if chk.ParseErr != nil || len(chk.TypeErrs) > 0 {
			r.why = "output does not type-check: " + strings.Join(chk.ErrStrings(), "; ")
			return
		}
		r.out, r.ok = res.Stdout, true
	})
	for _, r := range reqs {
		b.Static = append(b.Static, r.static...)
		if !r.ok {
			b.Skipped = append(b.Skipped, r.spec.Name+": "+r.why)
			continue
		}
		p := filepath.Join(b.Root, r.spec.File)
		os.MkdirAll(filepath.Dir(p), 0o755)
		if err := os.WriteFile(p, r.out, 0o644); err != nil {
			return nil, err
		}
		b.Mocks = append(b.Mocks, r.spec)
		b.Mocks = append(b.Mocks, r.more...)
	}
	if len(b.Mocks) == 0 {
		return b, fmt.Errorf("no usable mock in batch: %v", b.Skipped)
	}
	sort.Slice(b.Mocks, func(i, j int) bool { return b.Mocks[i].Name < b.Mocks[j].Name })
	if err := b.writeSupport(); err != nil {
		return nil, err
	}
	needI := false
	for _, v := range variants {
		if v == "isync" {
			needI = true
		}
	}
	if needI {
		if err := b.makeISync(); err != nil {
			return nil, err
		}
	}
	var wg sync.WaitGroup
	var mu sync.Mutex
	var firstErr error
	for _, v := range variants {
		wg.Add(1)
		go func(v string) {
			defer wg.Done()
			dir, args := b.Root, []string{"build", "-o", filepath.Join(work, "rt_"+v)}
			switch v {
			case "race":
				args = append(args, "-race")
			case "isync":
				dir = b.IRoot
			}
			args = append(args, "./cmd/rtmain")
			cmd := exec.Command("go", args...)
			cmd.Dir = dir
			cmd.Env = runner.ChildEnv()
			if v != "race" {
				// without cgo the Go runtime's deadlock detector ("all goroutines are asleep") is reliable: a binary
				// that links package net with cgo enabled has an extra M and never reports a global deadlock
				cmd.Env = append(cmd.Env, "CGO_ENABLED=0")
			}
			out, err := cmd.CombinedOutput()
			mu.Lock()
			defer mu.Unlock()
			if err != nil {
				if firstErr == nil {
					firstErr = fmt.Errorf("building %s driver: %v\n%s", v, err, trunc(string(out), 3000))
				}
				return
			}
			b.Bins[v] = filepath.Join(work, "rt_"+v)
		}(v)
	}
	wg.Wait()
	return b, firstErr
}

func firstLine(s string) string {
	if i := strings.IndexByte(s, '\n'); i >= 0 {
		return s[:i]
	}
	return s
}

func trunc(s string, n int) string {
	if len(s) > n {
		return s[:n] + "…"
	}
	return s
}

// writeSupport copies isync and the driver into the module and writes cmd/rtmain/main.go.
func (b *Batch) writeSupport() error {
	t := b.Tree
	root := evid.Root()
	isrc, err := os.ReadFile(filepath.Join(root, "monitors", "isync", "isync.go"))
	if err != nil {
		return err
	}
	os.MkdirAll(filepath.Join(b.Root, "isync"), 0o755)
	if err := os.WriteFile(filepath.Join(b.Root, "isync", "isync.go"), isrc, 0o644); err != nil {
		return err
	}
	os.MkdirAll(filepath.Join(b.Root, "drv"), 0o755)
	ents, err := os.ReadDir(filepath.Join(root, "monitors", "_drv"))
	if err != nil {
		return err
	}
	for _, e := range ents {
		src, err := os.ReadFile(filepath.Join(root, "monitors", "_drv", e.Name()))
		if err != nil {
			return err
		}
		src = bytes.ReplaceAll(src, []byte("VERIFMOD/"), []byte(t.ModPath+"/"))
		if err := os.WriteFile(filepath.Join(b.Root, "drv", e.Name()), src, 0o644); err != nil {
			return err
		}
	}
	// main.go
	var m strings.Builder
	m.WriteString("package main\n\nimport (\n\t\"reflect\"\n\n")
	fmt.Fprintf(&m, "\tdrv %q\n", t.ModPath+"/drv")
	fmt.Fprintf(&m, "\tsrc %q\n", t.SrcPath)
	hasOther := false
	usedDeps := map[*gen.Dep]bool{}
	for _, s := range b.Mocks {
		if s.Other {
			hasOther = true
		}
		for _, tp := range s.Iface.TParams {
			tp.Arg.Walk(func(x *gen.T) {
				if x.Kind == gen.KPkg {
					usedDeps[x.Pkg] = true
				}
			})
		}
	}
	if hasOther {
		fmt.Fprintf(&m, "\tmocks %q\n", t.SrcPath+"/mocks")
	}
	var deps []*gen.Dep
	for d := range usedDeps {
		deps = append(deps, d)
	}
	sort.Slice(deps, func(i, j int) bool { return deps[i].Path < deps[j].Path })
	qual := map[*gen.Dep]string{}
	for i, d := range deps {
		qual[d] = fmt.Sprintf("dep%d", i)
		fmt.Fprintf(&m, "\t%s %q\n", qual[d], d.Path)
	}
	m.WriteString(")\n\nfunc main() {\n")
	q := func(d *gen.Dep) string {
		if d == nil {
			return "src"
		}
		return qual[d]
	}
	for _, s := range b.Mocks {
		targs := ""
		if len(s.Iface.TParams) > 0 {
			var as []string
			for _, tp := range s.Iface.TParams {
				as = append(as, tp.Arg.Render(q))
			}
			targs = "[" + strings.Join(as, ", ") + "]"
		}
		pkg := "src"
		if s.Other {
			pkg = "mocks"
		}
		fmt.Fprintf(&m, "\tdrv.Register(drv.Entry{Name: %q, Iface: %q, New: func() any { return &%s.%s%s{} }, IfaceType: reflect.TypeOf((*src.%s%s)(nil)).Elem(), Stub: %v, Resets: %v, File: %q})\n",
			s.Name, s.Iface.Name, pkg, s.Name, targs, s.Iface.Name, targs, s.Stub, s.Resets, filepath.Base(s.File))
	}
	m.WriteString("\tdrv.Main()\n}\n")
	os.MkdirAll(filepath.Join(b.Root, "cmd", "rtmain"), 0o755)
	if err := os.WriteFile(filepath.Join(b.Root, "cmd", "rtmain", "main.go"), []byte(m.String()), 0o644); err != nil {
		return err
	}
	if hasOther {
		os.MkdirAll(filepath.Join(b.Root, t.SrcDir, "mocks"), 0o755)
		doc := filepath.Join(b.Root, t.SrcDir, "mocks", "doc.go")
		if _, err := os.Stat(doc); err != nil {
			os.WriteFile(doc, []byte("package mocks\n"), 0o644)
		}
	}
	return nil
}

// makeISync copies the module and redirects the "sync" import of every emitted file to the instrumented package.
// Only the import path literal is spliced; the qualifier the file already uses is kept.
func (b *Batch) makeISync() error {
	os.RemoveAll(b.IRoot)
	if out, err := exec.Command("cp", "-a", b.Root, b.IRoot).CombinedOutput(); err != nil {
		return fmt.Errorf("copy: %v %s", err, out)
	}
	spliced := map[string]bool{}
	for _, s := range b.Mocks {
		if spliced[s.File] {
			continue // a joint request: the file holds several mocks
		}
		spliced[s.File] = true
		p := filepath.Join(b.IRoot, s.File)
		src, err := os.ReadFile(p)
		if err != nil {
			return err
		}
		fset := token.NewFileSet()
		f, err := parser.ParseFile(fset, p, src, parser.ImportsOnly)
		if err != nil {
			return err
		}
		done := false
		for _, im := range f.Imports {
			if im.Path.Value != `"sync"` {
				continue
			}
			start, end := fset.Position(im.Path.Pos()).Offset, fset.Position(im.Path.End()).Offset
			repl := fmt.Sprintf("%q", b.Tree.ModPath+"/isync")
			if im.Name == nil {
				repl = "sync " + repl
			}
			src = append(append(append([]byte{}, src[:start]...), repl...), src[end:]...)
			done = true
			break
		}
		anyMethod := false
		for _, x := range b.Mocks {
			if x.File == s.File && len(x.Iface.Methods)+len(x.Iface.Embeds) > 0 {
				anyMethod = true
			}
		}
		if !done && anyMethod {
			return fmt.Errorf("%s: no sync import to redirect", s.File)
		}
		if err := os.WriteFile(p, src, 0o644); err != nil {
			return err
		}
	}
	return nil
}

// Line is one JSON line of driver output.
type Line map[string]any

// RunResult is the outcome of one driver run.
type RunResult struct {
	Lines    []Line
	Exit     int
	Stderr   string
	TimedOut bool
	LastMock string
	LastProg string
}

// Run executes a driver binary.
func Run(bin string, args []string, env []string, wall time.Duration) RunResult {
	cmd := exec.Command(bin, args...)
	cmd.Env = append(runner.ChildEnv(), env...)
	cmd.SysProcAttr = &syscall.SysProcAttr{Setpgid: true}
	var so, se bytes.Buffer
	cmd.Stdout, cmd.Stderr = &so, &se
	var rr RunResult
	if err := cmd.Start(); err != nil {
		rr.Exit = -1
		rr.Stderr = err.Error()
		return rr
	}
	done := make(chan error, 1)
	go func() { done <- cmd.Wait() }()
	select {
	case <-done:
	case <-time.After(wall):
		syscall.Kill(-cmd.Process.Pid, syscall.SIGQUIT)
		select {
		case <-done:
		case <-time.After(5 * time.Second):
			syscall.Kill(-cmd.Process.Pid, syscall.SIGKILL)
			<-done
		}
		rr.TimedOut = true
	}
	if cmd.ProcessState != nil {
		rr.Exit = cmd.ProcessState.ExitCode()
	}
	rr.Stderr = se.String()
	sc := bufio.NewScanner(&so)
	sc.Buffer(make([]byte, 1<<20), 1<<28)
	for sc.Scan() {
		var l Line
		if json.Unmarshal(sc.Bytes(), &l) == nil {
			rr.Lines = append(rr.Lines, l)
			if l["t"] == "progress" {
				rr.LastMock, _ = l["mock"].(string)
				rr.LastProg, _ = l["program"].(string)
			}
		}
	}
	return rr
}

// RaceReport is one data race block.
type RaceReport struct {
	Text      string
	Generated bool   // a frame lies in an emitted mock file
	Key       string // de-duplication key: generated-code frames without line numbers
}

// ParseRaceLogs reads GORACE log files with the given prefix.
func ParseRaceLogs(prefix string) []RaceReport {
	var out []RaceReport
	files, _ := filepath.Glob(prefix + ".*")
	for _, f := range files {
		b, err := os.ReadFile(f)
		if err != nil {
			continue
		}
		for _, blk := range strings.Split(string(b), "==================") {
			if !strings.Contains(blk, "WARNING: DATA RACE") {
				continue
			}
			r := RaceReport{Text: strings.TrimSpace(blk)}
			var frames []string
			lines := strings.Split(blk, "\n")
			for i, ln := range lines {
				if strings.Contains(ln, "zz_mock_") {
					r.Generated = true
					fn := ""
					if i > 0 {
						fn = strings.TrimSpace(lines[i-1])
						if k := strings.IndexByte(fn, '('); k > 0 {
							fn = fn[:k]
						}
					}
					frames = append(frames, fn)
				}
			}
			r.Key = strings.Join(frames, " <- ")
			out = append(out, r)
		}
	}
	return out
}
