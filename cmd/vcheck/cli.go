package main

import (
	"bytes"
	"fmt"
	"math/rand"
	"os"
	"path/filepath"
	"strings"
	"sync"
	"sync/atomic"

	"verif/internal/cli"
	"verif/internal/evid"
	"verif/internal/gen"
	"verif/internal/runner"
)

func init() {
	registry["C17"] = runCLI
	registry["C18"] = runCLI
	registry["C19"] = runCLI
}

// scen is one CLI execution with its expectations.
type scen struct {
	family   string // failure point or success kind
	tree     *gen.Tree
	argvPre  []string // flags
	srcArg   string   // source dir argument
	names    []string // interface arguments
	cwdRel   string   // cwd relative to the tree root
	out      string   // -out value ("" = stdout)
	rm       bool
	prior    string // absent, old, own, dir
	fail     bool   // the run must fail
	wantAny  []string
	inject   []string
	injectOn string // path (relative to root) the injection is restricted to
	setup    func(root string)
	stdoutTo string // redirect stdout to this device (e.g. /dev/full)
	noCheck17 bool  // the scenario only serves C19 (termination/diagnostic)
	exit2ok  bool   // flag-parsing errors exit with status 2
}

func (s *scen) argv() []string {
	a := append([]string{}, s.argvPre...)
	if s.out != "" {
		a = append(a, "-out", s.out)
	}
	if s.rm {
		a = append(a, "-rm")
	}
	if s.srcArg != "\x00" {
		a = append(a, s.srcArg)
	}
	return append(a, s.names...)
}

func (s *scen) key() string {
	return fmt.Sprintf("%s|prior=%s|rm=%v|out=%v|flags=%s|n=%d", s.family, s.prior, s.rm, s.out != "", strings.Join(s.argvPre, " "), len(s.names))
}

// buildScenarios enumerates the fault/prior-state/flag product for one tree. good are interface names known to
// be accepted in place with default flags.
func buildScenarios(t *gen.Tree, good []string, rng *rand.Rand, tier string) []*scen {
	var out []*scen
	src := t.SrcDir
	l := t.Locals
	fmts := [][]string{nil, {"-fmt", "noop"}, {"-fmt", "goimports"}}
	if t.NameMismatch {
		fmts = fmts[:2]
	}
	flagSets := [][]string{nil, {"-stub"}, {"-with-resets", "-skip-ensure"}}
	pick := func(n int) []string {
		// distinct names: the same interface twice under the default mock name declares one type twice
		var ns []string
		perm := rng.Perm(len(good))
		for i := 0; i < n; i++ {
			name := good[perm[i%len(perm)]]
			if i >= len(perm) {
				name += fmt.Sprintf(":Again%d%s", i, good[perm[i%len(perm)]])
			}
			ns = append(ns, name)
		}
		return ns
	}
	mkOut := func(k int) string {
		return []string{"mock_gen.go", "mocks_test.go", "gen/sub/mock.go", "zz_generated.go"}[k%4]
	}
	priors := []string{"absent", "old", "own"}
	// ---- successes
	k := 0
	for _, pr := range priors {
		for _, rm := range []bool{false, true} {
			for fi, f := range fmts {
				k++
				if tier == "quick" && (k+fi)%2 == 0 {
					continue
				}
				s := &scen{family: "success-out", tree: t, argvPre: append(append([]string{}, f...), flagSets[k%3]...), srcArg: ".", names: pick(1 + k%2), cwdRel: src, out: mkOut(k), rm: rm, prior: pr}
				if k%5 == 0 { // run from the module root with an absolute -out
					s.cwdRel, s.srcArg = ".", "./"+src
					s.out = "ABS:" + filepath.Join(src, mkOut(k))
				}
				out = append(out, s)
			}
		}
	}
	for fi, f := range fmts {
		out = append(out, &scen{family: "success-out-over-other-layout", tree: t, argvPre: append([]string{}, f...), srcArg: ".", names: pick(1), cwdRel: src, out: mkOut(fi), prior: "ownlayout"})
	}
	// run from the module root with a relative -out: a file of the same relative name below the source directory
	// is a bystander
	for i, pr := range []string{"own", "old", "absent"} {
		if tier == "quick" && i == 2 {
			continue
		}
		out = append(out, &scen{family: "success-out-relative-from-module-root", tree: t, argvPre: []string{"-pkg", "genmocks"}, srcArg: "./" + src, names: pick(1), cwdRel: ".", out: "genmocks/mock_gen.go", rm: i != 1, prior: pr,
			setup: func(root string) {
				d := filepath.Join(root, src, "genmocks")
				os.MkdirAll(d, 0o755)
				os.WriteFile(filepath.Join(d, "mock_gen.go"), []byte("package genmocks\n\n// Bystander must survive.\nconst Bystander = 1\n"), 0o644)
			}})
	}
	// regeneration over an earlier output that is LONGER than the new one (the interface lost methods, a flag was
	// dropped): nothing of the old file may survive
	for fi, f := range fmts {
		if tier == "quick" && fi == 2 {
			continue
		}
		out = append(out, &scen{family: "success-out-over-longer-own-output", tree: t, argvPre: append([]string{}, f...), srcArg: ".", names: pick(1), cwdRel: src, out: []string{"mock_gen.go", "gen/sub/mock.go", "zz_generated.go"}[fi], prior: "ownlonger"})
	}
	out = append(out, &scen{family: "success-stdout", tree: t, srcArg: ".", names: pick(2), cwdRel: src, prior: "absent"})
	out = append(out, &scen{family: "success-stdout", tree: t, argvPre: []string{"-stub", "-pkg", t.SrcName + "_test"}, srcArg: "./" + src, names: pick(1), cwdRel: ".", prior: "absent"})
	// ---- failures: bad name at position k of n
	bads := []struct{ name, kind string; want []string }{
		{"NoSuchType", "unknown", []string{"NoSuchType"}},
		{l.Struct, "struct", []string{l.Struct, "not an interface"}},
		{l.Func, "functype", []string{l.Func, "not an interface"}},
		{l.Gen, "genericstruct", []string{l.Gen, "not an interface"}},
		{l.Alias, "aliasstruct", []string{l.Alias, "not an interface"}},
		{l.Const, "const", []string{l.Const, "not an interface"}},
		{"GlobalVar", "var", []string{"GlobalVar", "not an interface"}},
		{"GlobalFunc", "func", []string{"GlobalFunc", "not an interface"}},
		{l.Secret, "unexportedstruct", []string{l.Secret, "not an interface"}},
	}
	bi := 0
	for n := 1; n <= 4; n++ {
		for pos := 0; pos < n; pos++ {
			b := bads[bi%len(bads)]
			bi++
			names := pick(n)
			names[pos] = b.name
			if bi%3 == 0 {
				names[pos] = b.name + ":Custom" + b.kind
			}
			pr := priors[bi%3]
			s := &scen{family: fmt.Sprintf("bad-name-%s-at-%d-of-%d", b.kind, pos+1, n), tree: t, argvPre: flagSets[bi%3], srcArg: ".", names: names, cwdRel: src,
				out: mkOut(bi), rm: bi%2 == 0, prior: pr, fail: true, wantAny: b.want[:1]}
			if bi%4 == 0 {
				s.out = "" // stdout mode: nothing but the usage text may reach stdout
			}
			out = append(out, s)
		}
	}
	// a bad name whose mock name equals that of an earlier, valid argument (explicitly, or through the default
	// <Name>Mock): it must be looked up and rejected all the same
	for i, b := range bads {
		if tier == "quick" && i%3 != len(out)%3 {
			continue
		}
		pr := priors[i%3]
		out = append(out, &scen{family: "bad-name-" + b.kind + "-same-mock-name-as-earlier", tree: t, argvPre: flagSets[i%3], srcArg: ".", names: []string{good[0] + ":Shared" + b.kind, b.name + ":Shared" + b.kind}, cwdRel: src,
			out: mkOut(i), rm: i%2 == 0, prior: pr, fail: true, wantAny: b.want[:1]})
		s := &scen{family: "bad-name-" + b.kind + "-default-mock-name-taken", tree: t, srcArg: ".", names: []string{good[0] + ":" + b.name + "Mock", good[len(good)-1] + ":Other" + b.kind, b.name}, cwdRel: src,
			out: mkOut(i + 1), prior: priors[(i+1)%3], fail: true, wantAny: b.want[:1]}
		if i%2 == 1 {
			s.out = ""
		}
		out = append(out, s)
	}
	if tier == "thorough" {
		for _, b := range bads {
			for _, pr := range priors {
				out = append(out, &scen{family: "bad-name-" + b.kind + "-last", tree: t, srcArg: ".", names: append(pick(2), b.name), cwdRel: src, out: mkOut(len(out)), rm: len(out)%2 == 0, prior: pr, fail: true, wantAny: b.want[:1]})
			}
		}
	}
	// ---- failures: unloadable package
	loadFail := func(family string, setup func(root string), srcArg string) {
		for i, pr := range priors {
			if tier == "quick" && i != len(out)%3 {
				continue
			}
			out = append(out, &scen{family: family, tree: t, srcArg: srcArg, names: pick(1), cwdRel: src, out: "../loadfail_out/mock.go", rm: i%2 == 1, prior: pr, fail: true, wantAny: []string{"couldn't load source package"}, setup: setup})
		}
	}
	loadFail("load-missing-dir", nil, "./does/not/exist")
	loadFail("load-no-go-files", func(root string) { os.MkdirAll(filepath.Join(root, src, "emptydir"), 0o755) }, "./emptydir")
	loadFail("load-syntax-error", func(root string) {
		os.WriteFile(filepath.Join(root, src, "broken.go"), []byte("package "+t.SrcName+"\n\nfunc broken( {\n"), 0o644)
	}, ".")
	loadFail("load-type-error", func(root string) {
		os.WriteFile(filepath.Join(root, src, "broken.go"), []byte("package "+t.SrcName+"\n\nvar broken undefinedType\n"), 0o644)
	}, ".")
	loadFail("load-two-packages", func(root string) {
		os.WriteFile(filepath.Join(root, src, "other.go"), []byte("package somethingelse\n"), 0o644)
	}, ".")
	// ---- failures: unformattable output
	for i, f := range [][]string{nil, {"-fmt", "goimports"}, {"-fmt", "gofmt"}} {
		if t.NameMismatch && i == 1 {
			continue
		}
		want := "go/format"
		if i == 1 {
			want = "goimports"
		}
		out = append(out, &scen{family: "format-bad-mock-name", tree: t, argvPre: f, srcArg: ".", names: []string{good[0] + ":not-an-identifier"}, cwdRel: src, out: mkOut(i), prior: priors[i%3], fail: true, wantAny: []string{want}})
		out = append(out, &scen{family: "format-bad-pkg-name", tree: t, argvPre: append(append([]string{}, f...), "-pkg", "my-pkg"), srcArg: ".", names: pick(1), cwdRel: src, out: mkOut(i + 1), rm: true, prior: priors[(i+1)%3], fail: true, wantAny: []string{want}})
		out = append(out, &scen{family: "format-bad-mock-name-stdout", tree: t, argvPre: f, srcArg: ".", names: append(pick(1), good[0]+":9bad"), cwdRel: src, prior: "absent", fail: true, wantAny: []string{want}})
	}
	// ---- failures: directory creation / file write
	out = append(out, &scen{family: "mkdir-component-is-file", tree: t, srcArg: ".", names: pick(1), cwdRel: src, out: "types.go/sub/mock.go", prior: "absent", fail: true, wantAny: []string{"types.go"}})
	out = append(out, &scen{family: "write-out-is-directory", tree: t, srcArg: ".", names: pick(1), cwdRel: src, out: "outdir", prior: "dir", fail: true, wantAny: []string{"outdir"}})
	for i, pr := range priors {
		out = append(out, &scen{family: "inject-open-EACCES", tree: t, srcArg: ".", names: pick(1), cwdRel: src, out: "ABS:" + filepath.Join(src, "mock_gen.go"), prior: pr, rm: i == 1, fail: true, wantAny: []string{"mock_gen.go", "ermission denied"},
			inject: []string{"openat:error=EACCES"}, injectOn: filepath.Join(src, "mock_gen.go")})
	}
	out = append(out, &scen{family: "inject-mkdir-EACCES", tree: t, srcArg: ".", names: pick(1), cwdRel: src, out: "ABS:" + filepath.Join(src, "newdir/mock_gen.go"), prior: "absent", fail: true, wantAny: []string{"newdir", "ermission denied"},
		inject: []string{"mkdirat:error=EACCES"}, injectOn: filepath.Join(src, "newdir")})
	out = append(out, &scen{family: "inject-write-ENOSPC-new-file", tree: t, srcArg: ".", names: pick(1), cwdRel: src, out: "ABS:" + filepath.Join(src, "mock_gen.go"), prior: "absent", fail: true, wantAny: []string{"mock_gen.go", "no space"},
		inject: []string{"write:error=ENOSPC"}, injectOn: filepath.Join(src, "mock_gen.go")})
	for _, pr := range []string{"old", "own"} {
		out = append(out, &scen{family: "inject-write-ENOSPC-existing-file", tree: t, srcArg: ".", names: pick(1), cwdRel: src, out: "ABS:" + filepath.Join(src, "gen/mock_gen.go"), prior: pr, fail: true, wantAny: []string{"mock_gen.go", "no space"},
			inject: []string{"write:error=ENOSPC"}, injectOn: filepath.Join(src, "gen/mock_gen.go")})
	}
	out = append(out, &scen{family: "stdout-device-full", tree: t, srcArg: ".", names: pick(1), cwdRel: src, prior: "absent", fail: true, wantAny: []string{"no space", "/dev/stdout", "write"}, stdoutTo: "/dev/full"})
	// -rm must not remove a directory tree that happens to sit at -out
	for _, o := range []string{"gendir", "gendir/", "../" + filepath.Base(src) + "_sibling"} {
		o := o
		out = append(out, &scen{family: "rm-out-is-nonempty-directory", tree: t, srcArg: ".", names: pick(1), cwdRel: src, out: o, rm: true, prior: "dir", fail: true, wantAny: []string{"gendir", "_sibling"},
			setup: func(root string) {
				d := filepath.Join(root, src, o)
				os.MkdirAll(filepath.Join(d, "testdata"), 0o755)
				os.WriteFile(filepath.Join(d, "keep.go"), []byte("package keep\n"), 0o644)
				os.WriteFile(filepath.Join(d, "testdata", "items.json"), []byte("{}\n"), 0o644)
			}})
	}
	// a go.mod that the go command would like to rewrite: moq must fail, not repair it
	out = append(out, &scen{family: "load-stale-go-mod", tree: t, srcArg: ".", names: pick(1), cwdRel: src, prior: "absent", fail: true, wantAny: []string{"couldn't load source package"},
		setup: func(root string) {
			os.MkdirAll(filepath.Join(root, "localdep"), 0o755)
			os.WriteFile(filepath.Join(root, "localdep", "go.mod"), []byte("module example.com/localdep\n\ngo 1.24\n"), 0o644)
			os.WriteFile(filepath.Join(root, "localdep", "d.go"), []byte("package localdep\n\ntype D struct{}\n"), 0o644)
			gm, _ := os.ReadFile(filepath.Join(root, "go.mod"))
			os.WriteFile(filepath.Join(root, "go.mod"), append(gm, []byte("\nreplace example.com/localdep => ./localdep\n")...), 0o644)
			os.WriteFile(filepath.Join(root, src, "zz_usesdep.go"), []byte("package "+t.SrcName+"\n\nimport \"example.com/localdep\"\n\ntype UsesDep interface{ Dep() localdep.D }\n"), 0o644)
		}})
	// ---- failures: argument validation
	out = append(out, &scen{family: "no-arguments", tree: t, srcArg: "\x00", cwdRel: src, prior: "absent", fail: true, wantAny: []string{"not enough arguments"}})
	out = append(out, &scen{family: "only-source-dir", tree: t, srcArg: ".", cwdRel: src, out: "mock_gen.go", prior: "old", fail: true, wantAny: []string{"not enough arguments"}})
	// ---- C19 only: odd argument strings and flags
	odd := []string{"", ":", good[0] + ":", ":Name", good[0] + ":A:B", "Ünï©ødé", strings.Repeat("X", 5000), good[0] + ":" + good[0], "[]", "a b", "*" + good[0], good[0] + "[int]", ".", "..", "/"}
	for i, o := range odd {
		out = append(out, &scen{family: "odd-argument", tree: t, argvPre: flagSets[i%3], srcArg: ".", names: []string{o}, cwdRel: src, prior: "absent", noCheck17: true})
	}
	out = append(out, &scen{family: "unknown-fmt-value", tree: t, argvPre: []string{"-fmt", "prettier"}, srcArg: ".", names: pick(1), cwdRel: src, prior: "absent", noCheck17: true})
	out = append(out, &scen{family: "unknown-flag", tree: t, argvPre: []string{"-no-such-flag"}, srcArg: ".", names: pick(1), cwdRel: src, prior: "absent", fail: true, noCheck17: true, exit2ok: true, wantAny: []string{"no-such-flag"}})
	out = append(out, &scen{family: "version-flag", tree: t, argvPre: []string{"-version"}, srcArg: "\x00", cwdRel: src, prior: "absent", noCheck17: true})
	out = append(out, &scen{family: "source-is-file", tree: t, srcArg: "./types.go", names: pick(1), cwdRel: src, prior: "absent", fail: true, noCheck17: true, wantAny: []string{"couldn't load source package"}})
	return out
}

type cliOutcome struct {
	s         *scen
	res       runner.Result
	events    []cli.Event
	order     []string
	diff      []string
	outAbs    string
	outBefore []byte
	outAfter  []byte
	outExists bool
	clean     []byte // stdout-mode output of the same request
	cleanOK   bool
	root      string
}

func copyTree(t *gen.Tree, dst string) error {
	if err := t.WriteTo(dst); err != nil {
		return err
	}
	extra := "package " + t.SrcName + "\n\nvar GlobalVar " + t.Locals.StrIf + "\n\nfunc GlobalFunc() {}\n"
	return os.WriteFile(filepath.Join(dst, t.SrcDir, "zz_extra.go"), []byte(extra), 0o644)
}

var scenCounter int64

// execScenario materialises a private copy, arranges the prior state, runs moq under strace and collects
// everything the three oracles need.
func execScenario(moq *runner.Moq, work string, worker int, s *scen) (*cliOutcome, error) {
	id := atomic.AddInt64(&scenCounter, 1)
	// one root per (worker, tree): the path is part of the go build cache key, so re-using it keeps the
	// go command's work cached across scenarios; the directory is wiped and rewritten for every scenario.
	root := filepath.Join(work, fmt.Sprintf("w%02d_t%d", worker, s.tree.Seed))
	os.RemoveAll(root)
	if err := copyTree(s.tree, root); err != nil {
		return nil, err
	}
	o := &cliOutcome{s: s, root: root}
	cwd := filepath.Join(root, s.cwdRel)
	if s.setup != nil {
		s.setup(root)
	}
	outArg := s.out
	if strings.HasPrefix(outArg, "ABS:") {
		outArg = filepath.Join(root, strings.TrimPrefix(outArg, "ABS:"))
		s2 := *s
		s2.out = outArg
		s = &s2
		o.s = s
	}
	if outArg != "" {
		o.outAbs = outArg
		if !filepath.IsAbs(outArg) {
			o.outAbs = filepath.Clean(filepath.Join(cwd, outArg))
		}
	}
	// the reference: the same request in stdout mode on a pristine copy (before any prior state is placed)
	if !s.fail && !s.noCheck17 {
		ref := *s
		ref.out, ref.rm = "", false
		r := moq.Run(cwd, ref.argv(), runner.Opts{})
		o.clean, o.cleanOK = r.Stdout, r.Exit == 0
	}
	if o.outAbs != "" {
		switch s.prior {
		case "old":
			os.MkdirAll(filepath.Dir(o.outAbs), 0o755)
			content := []byte("OLD CONTENT that is not Go at all\n\x00\xff\n")
			if !s.rm && filepath.Dir(o.outAbs) == filepath.Join(root, s.tree.SrcDir) {
				// without -rm a stale file inside the source package is loaded with it, so it must be Go
				content = []byte("// Code generated by moq; DO NOT EDIT.\n// stale\n\npackage " + s.tree.SrcName + "\n\n// StaleMarker is what an older run left behind.\nconst StaleMarker = 1\n")
				if strings.HasSuffix(o.outAbs, "_test.go") {
					content = []byte("package " + s.tree.SrcName + "\n\nconst staleTestMarker = 1\n")
				}
			}
			os.WriteFile(o.outAbs, content, 0o644)
		case "own":
			// own earlier output: generate the request's own output (or some valid mock file) outside the package
			// load path only when it would not change the package being loaded
			own := o.clean
			if own == nil {
				own = []byte("// Code generated by moq; DO NOT EDIT.\n// earlier output\n")
			}
			os.MkdirAll(filepath.Dir(o.outAbs), 0o755)
			if filepath.Dir(o.outAbs) == cwd || strings.HasSuffix(o.outAbs, ".go") && filepath.Dir(o.outAbs) == filepath.Join(root, s.tree.SrcDir) {
				// inside the source package a stale copy must stay loadable: use the real output only when the
				// request is expected to succeed (regeneration), otherwise a comment-only Go file of the package
				if s.fail || !o.cleanOK {
					own = []byte("// Code generated by moq; DO NOT EDIT.\n\npackage " + s.tree.SrcName + "\n")
				}
			}
			os.WriteFile(o.outAbs, own, 0o644)
		case "ownlonger":
			// the request's own output followed by declarations and comments a larger earlier request would have had
			own := o.clean
			if own == nil {
				own = []byte("// Code generated by moq; DO NOT EDIT.\n\npackage " + s.tree.SrcName + "\n")
			}
			var pad bytes.Buffer
			pad.Write(own)
			for k := 0; k < 40; k++ {
				fmt.Fprintf(&pad, "\n// leftoverMarker%d is part of what an earlier, larger generation wrote here.\nconst leftoverMarker%d = %d\n", k, k, k)
			}
			os.MkdirAll(filepath.Dir(o.outAbs), 0o755)
			os.WriteFile(o.outAbs, pad.Bytes(), 0o644)
		case "ownlayout":
			// the same declarations in another layout: what -fmt noop (or, for noop requests, gofmt) produced
			alt := *s
			alt.out, alt.rm = "", false
			hasFmt := false
			for i, a := range alt.argvPre {
				if a == "-fmt" && i+1 < len(alt.argvPre) {
					hasFmt = true
					pre := append([]string{}, alt.argvPre...)
					if pre[i+1] == "noop" {
						pre[i+1] = "gofmt"
					} else {
						pre[i+1] = "noop"
					}
					alt.argvPre = pre
				}
			}
			if !hasFmt {
				alt.argvPre = append([]string{"-fmt", "noop"}, alt.argvPre...)
			}
			if r := moq.Run(cwd, alt.argv(), runner.Opts{}); r.Exit == 0 {
				os.MkdirAll(filepath.Dir(o.outAbs), 0o755)
				os.WriteFile(o.outAbs, r.Stdout, 0o644)
			}
		case "dir":
			os.MkdirAll(o.outAbs, 0o755)
		}
		if b, err := os.ReadFile(o.outAbs); err == nil {
			o.outBefore = b
		}
	}
	before := cli.Snap(root)
	tr := cli.Trace{LogPath: filepath.Join(work, fmt.Sprintf("s%05d.strace", id))}
	if len(s.inject) > 0 {
		tr.Inject = s.inject
		tr.PathFilter = filepath.Join(root, s.injectOn)
		tr.ExtraTrace = "write"
	}
	opts := runner.Opts{CPULimit: 20}
	opts.Prefix = tr.Prefix()
	var res runner.Result
	if s.stdoutTo != "" {
		opts.StdoutPath = s.stdoutTo
	}
	res = moq.Run(cwd, s.argv(), opts)
	ev, order, err := cli.ParseLedger(tr.LogPath, cwd, root)
	os.Remove(tr.LogPath)
	if err != nil {
		return nil, err
	}
	o.res, o.events, o.order = res, ev, order
	after := cli.Snap(root)
	o.diff = cli.Diff(before, after)
	if o.outAbs != "" {
		if b, err := os.ReadFile(o.outAbs); err == nil {
			o.outAfter, o.outExists = b, true
		} else if fi, err := os.Stat(o.outAbs); err == nil && fi.IsDir() {
			o.outExists = true
		}
	}
	return o, nil
}

func looksLikeGoSource(b []byte) bool {
	for _, ln := range bytes.Split(b, []byte("\n")) {
		if bytes.HasPrefix(ln, []byte("package ")) || bytes.HasPrefix(ln, []byte("// Code generated")) || bytes.HasPrefix(ln, []byte("import (")) || bytes.HasPrefix(ln, []byte("func (mock")) {
			return true
		}
	}
	return false
}

func crashSignature(stderr []byte) string {
	for _, sig := range []string{"panic:", "fatal error:", "goroutine 1 [", "runtime error:", "SIGSEGV", "stack overflow"} {
		if bytes.Contains(stderr, []byte(sig)) {
			return sig
		}
	}
	return ""
}

// oracle17 checks all-or-nothing output.
func oracle17(o *cliOutcome) []string {
	s := o.s
	var v []string
	if s.noCheck17 {
		return nil
	}
	if s.fail {
		if o.res.Exit == 0 {
			v = append(v, fmt.Sprintf("the run must fail (%s) but exited 0", s.family))
		}
		if len(bytes.TrimSpace(o.res.Stderr)) == 0 {
			v = append(v, "failing run printed no diagnostic on standard error")
		}
		if looksLikeGoSource(o.res.Stdout) {
			v = append(v, "failing run wrote Go source to standard output")
		}
		if o.outAbs != "" && s.prior != "dir" {
			had := o.outBefore != nil
			switch {
			case s.rm && o.outExists && strings.HasPrefix(s.family, "inject-write"):
				// the write itself was attempted; covered below
			case s.rm && o.outExists:
				v = append(v, "-rm was given and the run failed, yet the -out file exists afterwards")
			case !s.rm && had && !o.outExists:
				v = append(v, "failing run removed the existing -out file")
			case !s.rm && had && !bytes.Equal(o.outBefore, o.outAfter):
				v = append(v, fmt.Sprintf("failing run changed the existing -out file (%d -> %d bytes)", len(o.outBefore), len(o.outAfter)))
			case !s.rm && !had && o.outExists && len(o.outAfter) > 0 && looksLikeGoSource(o.outAfter):
				v = append(v, "failing run left Go source at the -out path")
			}
		}
		return v
	}
	if o.res.Exit != 0 {
		v = append(v, fmt.Sprintf("successful request exited %d: %s", o.res.Exit, firstLine(string(o.res.Stderr))))
		return v
	}
	if o.outAbs == "" {
		if !looksLikeGoSource(o.res.Stdout) {
			v = append(v, "successful stdout-mode run wrote no Go source to standard output")
		}
		return v
	}
	if len(o.res.Stdout) != 0 {
		v = append(v, "with -out the run still wrote to standard output")
	}
	if !o.outExists {
		v = append(v, "successful run did not create the -out file")
		return v
	}
	if o.cleanOK && !bytes.Equal(o.outAfter, o.clean) {
		v = append(v, fmt.Sprintf("-out file (%d bytes) differs from the complete output of the same request (%d bytes)", len(o.outAfter), len(o.clean)))
	}
	opens := 0
	for _, e := range o.events {
		if !e.Failed && e.Path == o.outAbs && (e.Syscall == "openat" || e.Syscall == "open" || e.Syscall == "creat") {
			opens++
		}
	}
	if opens != 1 {
		v = append(v, fmt.Sprintf("-out file was opened for writing %d times, want exactly once", opens))
	}
	return v
}

// oracle18 checks that nothing but -out (and directories leading to it) is touched.
func oracle18(o *cliOutcome) []string {
	var v []string
	allowed := func(p string) bool {
		if o.outAbs == "" {
			return false
		}
		if p == o.outAbs {
			return true
		}
		// ancestors of -out
		return strings.HasPrefix(o.outAbs, strings.TrimSuffix(p, "/")+"/")
	}
	for _, e := range o.events {
		if e.Failed {
			continue
		}
		if !allowed(e.Path) || (e.Path2 != "" && !allowed(e.Path2)) {
			v = append(v, "system call modifies a path other than -out: "+e.String())
			continue
		}
		// on the allowed paths only creation/replacement (and removal of -out under -rm) is legitimate
		switch e.Syscall {
		case "unlinkat", "unlink":
			if !(o.s.rm && e.Path == o.outAbs) {
				v = append(v, "unexpected removal: "+e.String())
			}
		case "rmdir", "rename", "renameat", "renameat2", "chmod", "fchmodat", "chown", "fchownat", "lchown", "truncate", "link", "linkat", "symlink", "symlinkat":
			if e.Path != o.outAbs {
				v = append(v, "unexpected operation on a directory leading to -out: "+e.String())
			}
		}
	}
	for _, d := range o.diff {
		f := strings.SplitN(d, " ", 3)
		abs := filepath.Join(o.root, f[1])
		if !allowed(abs) {
			v = append(v, "tree snapshot differs outside -out: "+d)
			continue
		}
		if f[0] == "deleted" && !(o.s.rm && abs == o.outAbs) {
			v = append(v, "tree snapshot: "+d)
		}
		if f[0] == "changed" && abs != o.outAbs {
			v = append(v, "tree snapshot: a directory leading to -out was changed: "+d)
		}
	}
	return v
}

// oracle19 checks termination with output or a diagnostic that names the offending type or stage.
func oracle19(o *cliOutcome) []string {
	var v []string
	if o.res.TimedOut {
		return nil // inconclusive, handled by the caller
	}
	if sig := crashSignature(o.res.Stderr); sig != "" {
		v = append(v, fmt.Sprintf("moq crashed (%q on standard error, exit %d)", sig, o.res.Exit))
	}
	if o.res.Signal != "" {
		v = append(v, "moq was killed by signal "+o.res.Signal+" (CPU limit exceeded or crash)")
	}
	ok := o.res.Exit == 0 || o.res.Exit == 1 || (o.s.exit2ok && o.res.Exit == 2)
	if !ok && o.res.Signal == "" {
		v = append(v, fmt.Sprintf("exit status %d (want 0 or 1)", o.res.Exit))
	}
	if o.res.Exit != 0 && len(bytes.TrimSpace(o.res.Stderr)) == 0 {
		v = append(v, "non-zero exit without any diagnostic")
	}
	if o.s.fail && o.res.Exit != 0 && len(o.s.wantAny) > 0 && crashSignature(o.res.Stderr) == "" {
		found := false
		first := firstLine(string(o.res.Stderr))
		for _, w := range o.s.wantAny {
			if strings.Contains(string(o.res.Stderr), w) {
				found = true
			}
		}
		if !found {
			v = append(v, fmt.Sprintf("diagnostic %q does not name the offending type or stage (expected one of %q)", first, o.s.wantAny))
		}
	}
	if o.s.fail && o.res.Exit == 0 && !o.s.noCheck17 {
		v = append(v, fmt.Sprintf("a request that cannot be satisfied (%s) produced neither an error nor a non-zero exit", o.s.family))
	}
	return v
}

func runCLI(prop, tier string) int {
	level := "fault_enumeration"
	if prop == "C19" {
		level = "exploration"
	}
	rule := "cases = CLI executions of the real moq binary under strace on private copies of seeded scratch modules; the product {failure point: bad name kind at position k of n (k<=n<=4), unloadable package x5, unformattable output x3, mkdir/open/write faults incl. strace-injected errno, full stdout device, argument validation; successes} x prior state of -out {absent, foreign content, own output, directory} x -rm x flags/formatter; distinct = distinct (family, prior, -rm, out mode, flags, arity) tuples; all are non-trivial (each has a fault or a file-system effect to account for)"
	if prop == "C19" {
		rule = "cases = the C17 fault product plus odd argument strings, unknown flags/formatters and every accepted corpus request on adversarial import-path trees, each run under RLIMIT_CPU=20s; oracle: exit status in {0,1}, no Go runtime crash signature, diagnostic names the offending type or stage; distinct = distinct (family, prior, -rm, out mode, flags, arity) tuples plus distinct (interface shape, configuration) pairs of accepted requests"
	}
	run := evid.New(prop, tier, level, rule)
	run.Assumptions = []string{"strace -f sees every system call of moq and of the go command it spawns", "paths outside the scratch tree (build cache, telemetry counters, /tmp/go-build*) are not the property's business", "wall-clock watchdog (120 s) only yields inconclusive; hangs are decided by RLIMIT_CPU"}
	work, err := runner.NewWork(prop)
	if err != nil {
		fmt.Println("harness:", err)
		return 2
	}
	defer os.RemoveAll(work)
	moq, err := runner.Build(work)
	if err != nil {
		fmt.Println(err)
		return 2
	}
	ntrees := 2
	if tier == "thorough" {
		ntrees = 12
	}
	if v := os.Getenv("VERIF_TREES"); v != "" {
		fmt.Sscan(v, &ntrees)
	}
	seed := evid.Seed()
	hz := currentHazards()
	var scens []*scen
	goodByTree := map[*gen.Tree][]string{}
	profs := []gen.Profile{gen.ProfGeneral, gen.ProfImports, gen.ProfNaming}
	for i := 0; i < ntrees; i++ {
		t := gen.NewTree(seed*100019+int64(i), profs[i%len(profs)], hz)
		probe := filepath.Join(work, fmt.Sprintf("probe%d", i))
		if err := copyTree(t, probe); err != nil {
			continue
		}
		// interfaces accepted in place with default flags
		var good []string
		var mu sync.Mutex
		runner.Parallel(len(t.Ifaces), 16, func(k int) {
			ifc := t.Ifaces[k]
			if ifc.NeedsSkipEnsure {
				return
			}
			r := moq.Run(filepath.Join(probe, t.SrcDir), []string{".", ifc.Name}, runner.Opts{})
			if r.Exit == 0 {
				mu.Lock()
				good = append(good, ifc.Name)
				mu.Unlock()
			}
		})
		if len(good) == 0 {
			run.Inconc("no accepted interface in tree")
			continue
		}
		sortStrings(good)
		goodByTree[t] = good
		rng := rand.New(rand.NewSource(seed*31 + int64(i)))
		scens = append(scens, buildScenarios(t, good, rng, tier)...)
	}
	families := map[string]int{}
	var fmu sync.Mutex
	var ledgerEvents, injected int64
	runner.ParallelW(len(scens), 16, func(worker, i int) {
		s := scens[i]
		o, err := execScenario(moq, work, worker, s)
		if err != nil {
			run.Inconc("harness error: " + err.Error())
			return
		}
		defer os.RemoveAll(o.root)
		if o.res.TimedOut {
			run.Inconc("wall-clock watchdog")
			return
		}
		if bytes.Contains(o.res.Stderr, []byte("strace:")) && o.res.Exit != 0 && !bytes.Contains(o.res.Stderr, []byte("moq [flags]")) {
			run.Inconc("strace failed: " + firstLine(string(o.res.Stderr)))
			return
		}
		var v []string
		switch prop {
		case "C17":
			if s.noCheck17 {
				return
			}
			v = oracle17(o)
		case "C18":
			v = oracle18(o)
		case "C19":
			v = oracle19(o)
		}
		atomic.AddInt64(&ledgerEvents, int64(len(o.events)))
		if len(s.inject) > 0 {
			atomic.AddInt64(&injected, 1)
		}
		run.Eval(s.key())
		fmu.Lock()
		families[s.family]++
		fmu.Unlock()
		if i%37 == 0 {
			var evs []string
			for _, e := range o.events {
				evs = append(evs, e.String())
			}
			run.Sample(map[string]any{"family": s.family, "argv": s.argv(), "prior_out_state": s.prior, "exit": o.res.Exit, "stderr_first_line": firstLine(string(o.res.Stderr)), "ledger": evs, "snapshot_diff": o.diff})
		}
		if len(v) > 0 {
			if kid := knownCLI(prop, s, o, v); kid != "" {
				fmu.Lock()
				knownHits[kid] = strings.Join(v, " | ")
				fmu.Unlock()
				return
			}
			files := map[string]string{"stdout.txt": string(o.res.Stdout), "stderr.txt": string(o.res.Stderr), "argv.txt": shellJoin(s.argv()), "ledger.txt": strings.Join(o.order, "\n"), "snapshot_diff.txt": strings.Join(o.diff, "\n")}
			for rel, content := range s.tree.Files {
				files["tree/"+rel] = content
			}
			files["REPLAY.sh"] = fmt.Sprintf("# family %s, prior -out state %s, injected %v\ncd tree/%s && moq %s\n", s.family, s.prior, s.inject, s.cwdRel, shellJoin(s.argv()))
			run.Violation(fmt.Sprintf("family=%s prior=%s seed=%d argv=%v :: %s", s.family, s.prior, s.tree.Seed, s.argv(), strings.Join(dedupe(v), " | ")), files)
		}
	})
	if prop == "C19" {
		runC19Corpus(run, moq, work, tier)
	}
	if prop == "C17" {
		runC17Library(run, moq, work, goodByTree)
	}
	for id, what := range knownHits {
		title := ""
		for _, k := range loadKnown().Findings {
			if k.ID == id {
				title = k.Title + " :: "
			}
		}
		run.Known(id, title+what)
	}
	run.Set("executions_per_family", families)
	run.Set("ledger_events_inside_tree", int(ledgerEvents))
	run.Set("fault_injected_executions", int(injected))
	return run.Finish()
}

var knownHits = map[string]string{}

// knownCLI maps a violation to an open known finding by its specific fault point; "" when it is not listed.
func knownCLI(prop string, s *scen, o *cliOutcome, v []string) string {
	for _, k := range loadKnown().Findings {
		if k.Status != "open" || k.Engine != "cli-family" {
			continue
		}
		for _, p := range k.Properties {
			if p == prop && k.Dir == s.family {
				return k.ID
			}
		}
	}
	return ""
}

func sortStrings(s []string) {
	for i := 1; i < len(s); i++ {
		for j := i; j > 0 && s[j] < s[j-1]; j-- {
			s[j], s[j-1] = s[j-1], s[j]
		}
	}
}

// runC19Corpus runs every accepted corpus request of adversarial trees under the CPU limit, and the concrete
// inputs of the open findings that concern C19.
func runC19Corpus(run *evid.Run, moq *runner.Moq, work, tier string) {
	ntrees := 4
	if tier == "thorough" {
		ntrees = 120
	}
	seed := evid.Seed()
	hz := currentHazards()
	var jobs []job
	for i := 0; i < ntrees; i++ {
		t := gen.NewTree(seed*100043+int64(i), []gen.Profile{gen.ProfImports, gen.ProfNaming, gen.ProfGeneric}[i%3], hz)
		dir := filepath.Join(work, fmt.Sprintf("c19t%03d", i))
		if err := t.WriteTo(dir); err != nil {
			continue
		}
		rng := rand.New(rand.NewSource(seed*13 + int64(i)))
		o := gen.DefaultCaseOpts
		o.SameName, o.PerIface = hz.SamePkgName, 1
		for _, c := range gen.Cases(t, rng, o) {
			jobs = append(jobs, job{c: c, dir: dir})
		}
	}
	runner.Parallel(len(jobs), 16, func(i int) {
		j := jobs[i]
		res := moq.Run(cwdOf(j.dir, j.c), j.c.Args(), runner.Opts{CPULimit: 20})
		if res.TimedOut {
			run.Inconc("wall-clock watchdog")
			return
		}
		o := &cliOutcome{s: &scen{family: "corpus"}, res: res}
		v := oracle19(o)
		run.Eval("corpus|" + j.c.Key())
		run.Add("corpus_requests", 1)
		if len(v) > 0 {
			run.Violation(fmt.Sprintf("corpus seed=%d argv=%v :: %s", j.c.Tree.Seed, j.c.Args(), strings.Join(v, " | ")), replayFiles(j.c, res, nil))
		}
	})
	// concrete inputs of open findings handled by this engine
	for _, k := range loadKnown().Findings {
		if k.Status != "open" || k.Engine == "cli-family" {
			continue
		}
		listed := false
		for _, p := range k.Properties {
			if p == "C19" {
				listed = true
			}
		}
		// the concrete inputs of findings about OTHER properties are loadable packages too: moq must terminate with
		// output or a diagnostic on them (they are shapes the random corpus leaves out)
		kc, files, ok := readKnownCase(k)
		if !ok {
			continue
		}
		dst := filepath.Join(work, "known-"+k.ID)
		for rel, content := range files {
			p := filepath.Join(dst, rel)
			os.MkdirAll(filepath.Dir(p), 0o755)
			os.WriteFile(p, []byte(content), 0o644)
		}
		res := moq.Run(filepath.Join(dst, kc.Cwd), kc.Argv, runner.Opts{CPULimit: 20})
		o := &cliOutcome{s: &scen{family: "known"}, res: res}
		run.Eval("known-input|" + k.ID)
		if v := oracle19(o); len(v) > 0 {
			if listed {
				run.Known(k.ID, k.Title+" :: "+strings.Join(v, " | "))
			} else {
				tf := map[string]string{"stderr.txt": trunc(string(res.Stderr), 5000), "argv.txt": shellJoin(kc.Argv)}
				for rel, content := range files {
					tf["tree/"+rel] = content
				}
				run.Violation(fmt.Sprintf("input of %s argv=%v :: %s", k.ID, kc.Argv, strings.Join(v, " | ")), tf)
			}
		}
	}
}

// runC17Library exercises the writer contract of the library entry point in a child process: a counting writer
// must see exactly one Write with the complete file on success and no Write at all when the request fails; a
// writer that fails after b bytes must make Mock return an error after that single Write.
func runC17Library(run *evid.Run, mq *runner.Moq, work string, goodByTree map[*gen.Tree][]string) {
	var jobs []libJob
	type meta struct {
		t     *gen.Tree
		kind  string
		ref   []byte
		names []string
	}
	var metas []meta
	n := 0
	for t, good := range goodByTree {
		root := filepath.Join(work, fmt.Sprintf("lib17_%d", n))
		n++
		if err := copyTree(t, root); err != nil {
			continue
		}
		dir := filepath.Join(root, t.SrcDir)
		g0 := good[0]
		ref := mq.Run(dir, []string{".", g0}, runner.Opts{})
		if ref.Exit != 0 {
			continue
		}
		add := func(kind string, names []string, writer, fmtr string) {
			jobs = append(jobs, libJob{Dir: dir, SrcDir: ".", Names: names, Repeat: 1, Writer: writer, Fmt: fmtr})
			metas = append(metas, meta{t, kind, ref.Stdout, names})
		}
		add("success-count", []string{g0}, "count", "")
		for _, b := range []int{0, 1, len(ref.Stdout) / 2, len(ref.Stdout) - 1} {
			add(fmt.Sprintf("writer-fails-after-%d", b), []string{g0}, fmt.Sprintf("fail:%d", b), "")
		}
		add("fail-unknown-last", []string{g0, "NoSuchType"}, "count", "")
		add("fail-unknown-first", []string{"NoSuchType", g0}, "count", "")
		add("fail-not-interface-middle", []string{g0, t.Locals.Struct, g0 + ":Other"}, "count", "")
		add("fail-var", []string{g0, "GlobalVar"}, "count", "")
		add("fail-unformattable", []string{g0 + ":not-an-identifier"}, "count", "")
		add("fail-unformattable-goimports", []string{g0 + ":9bad"}, "count", "goimports")
		add("fail-no-names", nil, "count", "")
	}
	if len(jobs) == 0 {
		return
	}
	res, err := runLibDriver(work, "lib17.json", jobs)
	if err != nil {
		run.Inconc("library driver: " + err.Error())
		return
	}
	for i, r := range res {
		m := metas[i]
		run.Eval("library|" + m.kind)
		run.Add("library_writer_executions", 1)
		var v []string
		if r.Panic != "" {
			v = append(v, "library entry point panicked: "+r.Panic)
		}
		calls := 0
		if len(r.WriteCalls) > 0 {
			calls = r.WriteCalls[0]
		}
		errStr := ""
		if len(r.Errs) > 0 {
			errStr = r.Errs[0]
		}
		switch {
		case m.kind == "success-count":
			if errStr != "" {
				v = append(v, "successful request returned error "+errStr)
			}
			if calls != 1 || len(r.WriteLens[0]) != 1 || r.WriteLens[0][0] != len(m.ref) {
				v = append(v, fmt.Sprintf("the writer saw %d Write calls %v, want exactly one with the complete %d-byte file", calls, r.WriteLens[0], len(m.ref)))
			}
			if len(r.Outputs) > 0 && r.Outputs[0] != string(m.ref) {
				v = append(v, "bytes written to the writer differ from the CLI output of the same request")
			}
		case strings.HasPrefix(m.kind, "writer-fails-after"):
			if errStr == "" {
				v = append(v, "the writer failed but Mock returned no error")
			}
			if calls != 1 || r.WriteLens[0][0] != len(m.ref) {
				v = append(v, fmt.Sprintf("a failing writer saw %d Write calls %v, want one call with the complete file", calls, r.WriteLens[0]))
			}
		default:
			if errStr == "" {
				v = append(v, "a request that must fail returned no error")
			}
			if calls != 0 {
				v = append(v, fmt.Sprintf("a failing request (%s) wrote to the writer: %d Write calls, %d bytes", m.kind, calls, len(r.Outputs[0])))
			}
		}
		if len(v) > 0 {
			files := map[string]string{"names.txt": strings.Join(m.names, " "), "written.txt": strings.Join(r.Outputs, "\n----\n")}
			for rel, content := range m.t.Files {
				files["tree/"+rel] = content
			}
			run.Violation(fmt.Sprintf("library %s seed=%d names=%v :: %s", m.kind, m.t.Seed, m.names, strings.Join(v, " | ")), files)
		}
	}
}
