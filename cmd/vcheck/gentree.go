package main

import (
	"fmt"
	"strconv"
	"strings"

	"verif/internal/gen"
)

// genTree writes one corpus tree to a directory: <profile>:<seed>:<dir>. Profiles: general imports naming generic
// regen regen-nosync cluster runtime, or matrix-<kind>.
func genTree(spec string) int {
	parts := strings.SplitN(spec, ":", 3)
	if len(parts) != 3 {
		fmt.Println("usage: vcheck gentree <profile>:<seed>:<dir>")
		return 2
	}
	seed, _ := strconv.ParseInt(parts[1], 10, 64)
	hz := currentHazards()
	var t *gen.Tree
	if strings.HasPrefix(parts[0], "matrix-") {
		t = gen.NewMatrixTree(strings.TrimPrefix(parts[0], "matrix-"), hz)
	} else {
		prof := map[string]gen.Profile{"general": gen.ProfGeneral, "imports": gen.ProfImports, "naming": gen.ProfNaming, "generic": gen.ProfGeneric,
			"regen": gen.ProfRegen, "cluster": gen.ProfCluster, "runtime": gen.ProfRuntime}[strings.TrimSuffix(parts[0], "-nosync")]
		if strings.HasSuffix(parts[0], "-nosync") {
			prof.NoSync, prof.SrcName = true, "store"
		}
		t = gen.NewTree(seed, prof, hz)
	}
	if err := t.WriteTo(parts[2]); err != nil {
		fmt.Println(err)
		return 2
	}
	fmt.Println(t.SrcDir)
	return 0
}
