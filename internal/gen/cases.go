package gen

import (
	"fmt"
	"math/rand"
	"strings"
)

// Case is one moq invocation on a tree.
type Case struct {
	Tree       *Tree
	Ifaces     []*Iface
	MockNames  []string // "" = default <Iface>Mock
	Stub       bool
	SkipEnsure bool
	WithResets bool
	Dest       int // 0 implicit same, 1 explicit same name, 2 other name, 3 <src>_test
	PkgName    string
	Fmt        string // "", gofmt, goimports, noop
	CwdRoot    bool   // run from the module root with ./SrcDir instead of from the source directory
	FlagSpelling int  // 0: -flag when on; 1: every boolean flag given explicitly (-stub=false -with-resets=T ...); 2: --flag
}

// Args renders the moq argument vector (without -out).
func (c *Case) Args() []string {
	var a []string
	flag := func(name string, on bool, yes, no string) {
		switch c.FlagSpelling {
		case 1:
			if on {
				a = append(a, "-"+name+"="+yes)
			} else {
				a = append(a, "-"+name+"="+no)
			}
		case 2:
			if on {
				a = append(a, "--"+name)
			}
		default:
			if on {
				a = append(a, "-"+name)
			}
		}
	}
	flag("stub", c.Stub, "true", "false")
	flag("skip-ensure", c.SkipEnsure, "1", "0")
	flag("with-resets", c.WithResets, "T", "F")
	if c.PkgName != "" {
		a = append(a, "-pkg", c.PkgName)
	}
	if c.Fmt != "" {
		a = append(a, "-fmt", c.Fmt)
	}
	if c.CwdRoot {
		a = append(a, "./"+c.Tree.SrcDir)
	} else {
		a = append(a, ".")
	}
	for i, ifc := range c.Ifaces {
		if c.MockNames[i] != "" {
			a = append(a, ifc.Name+":"+c.MockNames[i])
		} else {
			a = append(a, ifc.Name)
		}
	}
	return a
}

// MockName returns the name of the i-th mock.
func (c *Case) MockName(i int) string {
	if c.MockNames[i] != "" {
		return c.MockNames[i]
	}
	return c.Ifaces[i].Name + "Mock"
}

// ConfigKey identifies the configuration (not the interfaces).
func (c *Case) ConfigKey() string {
	return fmt.Sprintf("stub=%v,skip=%v,resets=%v,dest=%d,fmt=%s,alias=%v,n=%d", c.Stub, c.SkipEnsure, c.WithResets, c.Dest, c.Fmt, c.MockNames[0] != "", len(c.Ifaces))
}

// Key identifies shape x configuration for coverage accounting.
func (c *Case) Key() string {
	var s []string
	for _, i := range c.Ifaces {
		s = append(s, i.Shape())
	}
	return strings.Join(s, "+") + "|" + c.ConfigKey()
}

// Describe is a human-readable form for evidence samples.
func (c *Case) Describe() map[string]any {
	q := func(d *Dep) string {
		if d == nil || d.SrcAlias == "." {
			return ""
		}
		if d.SrcAlias != "" {
			return d.SrcAlias
		}
		return d.Name
	}
	var src []string
	for _, i := range c.Ifaces {
		src = append(src, i.Source(q))
	}
	return map[string]any{"tree_seed": c.Tree.Seed, "profile": c.Tree.Profile, "argv": c.Args(), "interfaces": src}
}

// CaseOpts steers case generation.
type CaseOpts struct {
	PerIface    int     // configurations sampled per interface
	Multi       int     // additional multi-interface requests per tree
	ForceSkip   float64 // probability of forcing -skip-ensure
	OtherDest   float64 // probability of a non-in-place destination (when the interface allows it)
	SameName    bool    // allow -pkg <source name> (hazard b)
	GoimportsMismatch bool // allow -fmt goimports on trees with package names goimports cannot guess (hazard s)
	Formatters  []string
}

// DefaultCaseOpts is the general mix.
var DefaultCaseOpts = CaseOpts{PerIface: 2, Multi: 2, ForceSkip: 0.3, OtherDest: 0.45, Formatters: []string{"", "", "gofmt", "noop", "noop", "goimports"}}

// Cases builds the invocation list of a tree.
func Cases(t *Tree, rng *rand.Rand, o CaseOpts) []*Case {
	var out []*Case
	mk := func(ifs []*Iface) *Case {
		c := &Case{Tree: t, Ifaces: ifs, MockNames: make([]string, len(ifs))}
		c.Stub = rng.Intn(2) == 0
		c.WithResets = rng.Intn(2) == 0
		c.SkipEnsure = rng.Float64() < o.ForceSkip
		c.Fmt = o.Formatters[rng.Intn(len(o.Formatters))]
		if c.Fmt == "goimports" && t.NameMismatch && !o.GoimportsMismatch {
			c.Fmt = "gofmt"
		}
		c.CwdRoot = rng.Intn(3) == 0
		switch len(out) % 5 {
		case 3:
			c.FlagSpelling = 1
		case 4:
			c.FlagSpelling = 2
		}
		exportable := true
		for _, i := range ifs {
			if !i.Exportable {
				exportable = false
			}
			if i.NeedsSkipEnsure {
				c.SkipEnsure = true
			}
		}
		if exportable && rng.Float64() < o.OtherDest {
			if rng.Intn(3) == 0 {
				c.Dest, c.PkgName = 3, t.SrcName+"_test"
			} else {
				c.Dest = 2
				c.PkgName = "mocks"
				if t.OtherPkg == "" && rng.Intn(2) == 0 {
					c.PkgName = []string{"mymocks", "fakes", "mock_" + t.SrcName}[rng.Intn(3)]
				}
			}
		} else if o.SameName && rng.Intn(4) == 0 {
			c.Dest, c.PkgName = 1, t.SrcName
		}
		for k := range ifs {
			if rng.Intn(4) == 0 {
				c.MockNames[k] = []string{"Fake", "Stub", "My", "Mocked"}[rng.Intn(4)] + ifs[k].Name
			}
		}
		// outside the source package a mock may be named exactly like its interface
		if c.Dest >= 2 && rng.Intn(6) == 0 {
			c.MockNames[0] = ifs[0].Name
		}
		// the same interface may be requested twice under different mock names
		if len(ifs) >= 2 && rng.Intn(4) == 0 {
			c.Ifaces = append(append([]*Iface{}, ifs...), ifs[0])
			c.MockNames = append(c.MockNames, "Second"+ifs[0].Name)
		}
		return c
	}
	for _, i := range t.Ifaces {
		n := o.PerIface
		if n > 1 && len(i.Tags) > 0 && i.Tags[0] == "fixed" {
			n = 1 // the fixed shapes are in every tree: one configuration per tree is enough
		}
		for k := 0; k < n; k++ {
			out = append(out, mk([]*Iface{i}))
		}
	}
	for _, names := range t.FixedRequests {
		var ifs []*Iface
		for _, n := range names {
			for _, i := range t.Ifaces {
				if i.Name == n {
					ifs = append(ifs, i)
				}
			}
		}
		if len(ifs) == len(names) {
			c := mk(ifs)
			c.Ifaces, c.MockNames = ifs, make([]string, len(ifs)) // exactly as listed
			out = append(out, c)
		}
	}
	for k := 0; k < o.Multi && len(t.Ifaces) >= 2; k++ {
		n := 2 + rng.Intn(3)
		if n > len(t.Ifaces) {
			n = len(t.Ifaces)
		}
		perm := rng.Perm(len(t.Ifaces))
		var ifs []*Iface
		for _, p := range perm[:n] {
			ifs = append(ifs, t.Ifaces[p])
		}
		out = append(out, mk(ifs))
	}
	return out
}

