module example.com/kfu

go 1.24
