package one

type U struct{}
