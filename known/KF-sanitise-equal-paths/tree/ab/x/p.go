package x

type U struct{}
