// Package isync is an API-identical stand-in for the parts of package sync that generated mocks use. The import
// path "sync" of an emitted file is redirected here (on a copy); RWMutex wraps the real sync.RWMutex, so
// mutual exclusion is unchanged, and additionally maintains per-goroutine locksets, a waits-for graph and a
// lock-order graph. Everything else is passed through as type aliases.
package isync

import (
	"bytes"
	"fmt"
	"runtime"
	"strconv"
	"sync"
	"sync/atomic"
)

type (
	Mutex = sync.Mutex
	Once  = sync.Once
	Cond  = sync.Cond
	Pool      = sync.Pool
	Map       = sync.Map
	Locker    = sync.Locker
)

var NewCond = sync.NewCond

// GID returns the current goroutine's id.
func GID() uint64 {
	var buf [64]byte
	b := buf[:runtime.Stack(buf[:], false)]
	b = bytes.TrimPrefix(b, []byte("goroutine "))
	i := bytes.IndexByte(b, ' ')
	n, _ := strconv.ParseUint(string(b[:i]), 10, 64)
	return n
}

// Deadlock is the panic value used to unwind a goroutine whose lock request can never be granted.
type Deadlock struct{ Msg string }

func (d Deadlock) Error() string { return d.Msg }

type held struct {
	l     *RWMutex
	write bool
	n     int
}

var (
	mon      sync.Mutex
	heldBy   = map[uint64][]*held{}            // goroutine -> locks it holds
	writer   = map[*RWMutex]uint64{}           // lock -> goroutine holding it for writing
	readers  = map[*RWMutex]map[uint64]int{}   // lock -> goroutines holding it for reading
	waitLock = map[uint64]*RWMutex{}           // goroutine -> lock it is blocked on
	waitMode = map[uint64]bool{}               // ... for writing?
	waitGor  = map[uint64]map[uint64]bool{}    // goroutine -> goroutines whose completion it waits for (driver gates)
	order    = map[*RWMutex]map[*RWMutex]bool{} // lock-order graph: held -> acquired
	events   int64
	reports  []string
	nextID   uint64
	names    = map[*RWMutex]string{}
	// Yield, when set, is called around every lock operation (schedule perturbation between critical sections).
	Yield func()
)

// RWMutex is the instrumented reader/writer lock. The zero value is ready to use.
type RWMutex struct {
	mu sync.RWMutex
}

// Name registers a human-readable name for reports.
func Name(l *RWMutex, name string) {
	mon.Lock()
	names[l] = name
	mon.Unlock()
}

func lname(l *RWMutex) string {
	if n, ok := names[l]; ok {
		return n
	}
	return fmt.Sprintf("lock@%p", l)
}

func report(msg string) {
	reports = append(reports, msg)
}

// Reports returns and clears the violation reports collected so far.
func Reports() []string {
	mon.Lock()
	defer mon.Unlock()
	r := reports
	reports = nil
	return r
}

// Events returns the number of lock events observed.
func Events() int64 { return atomic.LoadInt64(&events) }

// Held lists the locks the goroutine currently holds.
func Held(g uint64) []string {
	mon.Lock()
	defer mon.Unlock()
	var out []string
	for _, h := range heldBy[g] {
		m := "read"
		if h.write {
			m = "write"
		}
		out = append(out, lname(h.l)+" ("+m+")")
	}
	return out
}

// OrderEdges returns the lock-order edges observed (nested acquisitions).
func OrderEdges() [][2]string {
	mon.Lock()
	defer mon.Unlock()
	var out [][2]string
	for a, m := range order {
		for b := range m {
			out = append(out, [2]string{lname(a), lname(b)})
		}
	}
	return out
}

// OrderCycle reports a cycle in the lock-order graph, if any.
func OrderCycle() string {
	mon.Lock()
	defer mon.Unlock()
	state := map[*RWMutex]int{}
	var path []string
	var found string
	var dfs func(l *RWMutex) bool
	dfs = func(l *RWMutex) bool {
		state[l] = 1
		path = append(path, lname(l))
		for n := range order[l] {
			if state[n] == 1 {
				found = fmt.Sprint(append(path, lname(n)))
				return true
			}
			if state[n] == 0 && dfs(n) {
				return true
			}
		}
		path = path[:len(path)-1]
		state[l] = 2
		return false
	}
	for l := range order {
		if state[l] == 0 && dfs(l) {
			return found
		}
	}
	return ""
}

// Reset forgets all monitor state (between programs).
func Reset() {
	mon.Lock()
	defer mon.Unlock()
	heldBy = map[uint64][]*held{}
	writer = map[*RWMutex]uint64{}
	readers = map[*RWMutex]map[uint64]int{}
	waitLock = map[uint64]*RWMutex{}
	waitMode = map[uint64]bool{}
	waitGor = map[uint64]map[uint64]bool{}
	order = map[*RWMutex]map[*RWMutex]bool{}
	names = map[*RWMutex]string{}
	reports = nil
}

// blockedForever reports whether goroutine g, about to wait as described by the current wait maps, is part of a
// cycle in the waits-for graph (goroutine -> holders of the lock it wants / goroutines it waits for).
func cycleFrom(start uint64) []uint64 {
	seen := map[uint64]bool{}
	var path []uint64
	var dfs func(g uint64) bool
	dfs = func(g uint64) bool {
		if g == start && len(path) > 0 {
			return true
		}
		if seen[g] {
			return false
		}
		seen[g] = true
		path = append(path, g)
		var next []uint64
		if l, ok := waitLock[g]; ok {
			if w, ok := writer[l]; ok {
				next = append(next, w)
			}
			if waitMode[g] {
				for r := range readers[l] {
					next = append(next, r)
				}
			} else {
				// writer preference of sync.RWMutex: a read request queues behind every pending write request
				for og, ol := range waitLock {
					if ol == l && og != g && waitMode[og] {
						next = append(next, og)
					}
				}
			}
		}
		for o := range waitGor[g] {
			next = append(next, o)
		}
		for _, n := range next {
			if n == start {
				return true
			}
			if dfs(n) {
				return true
			}
		}
		path = path[:len(path)-1]
		return false
	}
	if dfs(start) {
		return path
	}
	return nil
}

// WaitFor declares that the calling goroutine is about to block until the given goroutines finish their
// current operations (driver-level gate). It panics with Deadlock if that can never happen.
func WaitFor(others ...uint64) {
	g := GID()
	mon.Lock()
	m := map[uint64]bool{}
	for _, o := range others {
		m[o] = true
	}
	waitGor[g] = m
	if c := cycleFrom(g); c != nil {
		delete(waitGor, g)
		msg := fmt.Sprintf("deadlock: goroutine %d (holding %v) waits for goroutines %v, cycle %v", g, heldNames(g), others, c)
		report(msg)
		mon.Unlock()
		panic(Deadlock{msg})
	}
	mon.Unlock()
}

// IsWaiting reports whether goroutine g has announced a lock request that has not been granted yet.
func IsWaiting(g uint64) bool {
	mon.Lock()
	defer mon.Unlock()
	_, ok := waitLock[g]
	return ok
}

// DoneWaiting clears the gate edges of the calling goroutine.
func DoneWaiting() {
	g := GID()
	mon.Lock()
	delete(waitGor, g)
	mon.Unlock()
}

func heldNames(g uint64) []string {
	var out []string
	for _, h := range heldBy[g] {
		out = append(out, lname(h.l))
	}
	return out
}

func (l *RWMutex) acquire(write bool) {
	atomic.AddInt64(&events, 1)
	if y := Yield; y != nil {
		y()
	}
	g := GID()
	mon.Lock()
	// self re-acquisition: a write request while holding the lock in any mode, or a read request while holding
	// it for writing, can never be granted
	for _, h := range heldBy[g] {
		if h.l == l && (write || h.write) {
			msg := fmt.Sprintf("deadlock: goroutine %d requests %s for %s while already holding it (%s)", g, lname(l), mode(write), mode(h.write))
			report(msg)
			mon.Unlock()
			panic(Deadlock{msg})
		}
	}
	mon.Unlock()
	// serialised mode: ask the scheduler before every acquisition; it grants only when the lock is free
	if s, sg := curSerial(g); sg != nil {
		s.point(sg, l, write)
	}
	mon.Lock()
	for _, h := range heldBy[g] {
		if h.l != l {
			if order[h.l] == nil {
				order[h.l] = map[*RWMutex]bool{}
			}
			order[h.l][l] = true
		}
	}
	waitLock[g], waitMode[g] = l, write
	if c := cycleFrom(g); c != nil {
		delete(waitLock, g)
		delete(waitMode, g)
		msg := fmt.Sprintf("deadlock: goroutine %d requests %s for %s, waits-for cycle through goroutines %v", g, lname(l), mode(write), c)
		report(msg)
		mon.Unlock()
		panic(Deadlock{msg})
	}
	mon.Unlock()
	if write {
		l.mu.Lock()
	} else {
		l.mu.RLock()
	}
	mon.Lock()
	delete(waitLock, g)
	delete(waitMode, g)
	if write {
		writer[l] = g
	} else {
		if readers[l] == nil {
			readers[l] = map[uint64]int{}
		}
		readers[l][g]++
	}
	found := false
	for _, h := range heldBy[g] {
		if h.l == l && h.write == write {
			h.n++
			found = true
		}
	}
	if !found {
		heldBy[g] = append(heldBy[g], &held{l: l, write: write, n: 1})
	}
	mon.Unlock()
}

func mode(w bool) string {
	if w {
		return "writing"
	}
	return "reading"
}

func (l *RWMutex) release(write bool) {
	atomic.AddInt64(&events, 1)
	g := GID()
	mon.Lock()
	hs := heldBy[g]
	ok := false
	for i, h := range hs {
		if h.l == l && h.write == write {
			h.n--
			if h.n == 0 {
				heldBy[g] = append(hs[:i:i], hs[i+1:]...)
			}
			ok = true
			break
		}
	}
	if !ok {
		report(fmt.Sprintf("goroutine %d releases %s (%s) which it does not hold", g, lname(l), mode(write)))
	}
	if write {
		delete(writer, l)
	} else if readers[l] != nil {
		readers[l][g]--
		if readers[l][g] <= 0 {
			delete(readers[l], g)
		}
	}
	mon.Unlock()
	if write {
		l.mu.Unlock()
	} else {
		l.mu.RUnlock()
	}
	if y := Yield; y != nil {
		y()
	}
}

func (l *RWMutex) Lock()    { l.acquire(true) }
func (l *RWMutex) Unlock()  { l.release(true) }
func (l *RWMutex) RLock()   { l.acquire(false) }
func (l *RWMutex) RUnlock() { l.release(false) }

// TryLock and TryRLock are passed through with bookkeeping.
func (l *RWMutex) TryLock() bool {
	if !l.mu.TryLock() {
		return false
	}
	g := GID()
	mon.Lock()
	writer[l] = g
	heldBy[g] = append(heldBy[g], &held{l: l, write: true, n: 1})
	mon.Unlock()
	return true
}

func (l *RWMutex) TryRLock() bool {
	if !l.mu.TryRLock() {
		return false
	}
	g := GID()
	mon.Lock()
	if readers[l] == nil {
		readers[l] = map[uint64]int{}
	}
	readers[l][g]++
	heldBy[g] = append(heldBy[g], &held{l: l, write: false, n: 1})
	mon.Unlock()
	return true
}

type rlocker RWMutex

func (r *rlocker) Lock()   { (*RWMutex)(r).RLock() }
func (r *rlocker) Unlock() { (*RWMutex)(r).RUnlock() }

// RLocker mirrors sync.RWMutex.RLocker.
func (l *RWMutex) RLocker() Locker { return (*rlocker)(l) }

// ---------------------------------------------------------------------------------------------------------
// Serialised mode: controlled goroutines run one at a time and yield to a scheduler before every lock
// acquisition (and at explicit Point calls). The scheduler follows a given choice prefix and then always takes
// the first enabled goroutine, and reports how many goroutines were enabled at every decision, so a driver can
// enumerate all schedules by stateless depth-first search. Lock availability is taken from the monitor's own
// bookkeeping, so a goroutine that asks for a held lock is simply not schedulable, and "nobody schedulable while
// somebody is unfinished" is a deadlock verdict without any timeout.

type sgor struct {
	wantWG *WaitGroup
	rank   int
	grant  chan struct{}
	atPt   bool
	done   bool
	want   *RWMutex
	wwrite bool
}

type serial struct {
	gors map[uint64]*sgor
	list []*sgor
	wake chan struct{}
	dead bool
}

var (
	serMu sync.Mutex
	ser   *serial
)

func curSerial(g uint64) (*serial, *sgor) {
	serMu.Lock()
	defer serMu.Unlock()
	if ser == nil {
		return nil, nil
	}
	return ser, ser.gors[g]
}

func (s *serial) point(sg *sgor, l *RWMutex, write bool) {
	sg.want, sg.wwrite, sg.atPt = l, write, true
	s.wake <- struct{}{}
	<-sg.grant
	sg.want = nil
	if s.dead {
		panic(Deadlock{fmt.Sprintf("deadlock: no goroutine can be scheduled; goroutine #%d is waiting for %s", sg.rank, lname(l))})
	}
}

func wgFree(w *WaitGroup) bool {
	if w == nil {
		return true
	}
	mon.Lock()
	defer mon.Unlock()
	return len(wgOwners[w]) == 0
}

// Point yields to the scheduler (no-op outside serialised mode).
func Point() {
	if s, sg := curSerial(GID()); sg != nil {
		s.point(sg, nil, false)
	}
}

func available(l *RWMutex, write bool, g uint64) bool {
	mon.Lock()
	defer mon.Unlock()
	if l == nil {
		return true
	}
	if _, w := writer[l]; w {
		return false
	}
	if write && len(readers[l]) > 0 {
		return false
	}
	return true
}

// SerialRun runs fns as controlled goroutines under the schedule `prefix` (index into the list of enabled
// goroutines at each decision, ordered by rank; beyond the prefix the first enabled one is taken). It returns
// the choices made, the number of enabled goroutines at each decision and whether the run deadlocked.
func SerialRun(prefix []int, fns ...func()) (trace, widths []int, deadlocked bool) {
	s := &serial{gors: map[uint64]*sgor{}, wake: make(chan struct{})}
	gids := make([]uint64, len(fns))
	ready := make(chan int)
	for i, fn := range fns {
		sg := &sgor{rank: i, grant: make(chan struct{})}
		s.list = append(s.list, sg)
		go func(i int, fn func(), sg *sgor) {
			gids[i] = GID()
			ready <- i
			<-sg.grant // registration barrier
			defer func() {
				if r := recover(); r != nil {
					if _, ok := r.(Deadlock); !ok {
						panic(r)
					}
				}
				sg.done, sg.atPt = true, false
				s.wake <- struct{}{}
			}()
			if s.dead {
				return
			}
			// the first decision about this goroutine is taken at its start
			sg.atPt = true
			s.wake <- struct{}{}
			<-sg.grant
			if s.dead {
				return
			}
			fn()
		}(i, fn, sg)
	}
	for range fns {
		<-ready
	}
	for i, sg := range s.list {
		s.gors[gids[i]] = sg
	}
	serMu.Lock()
	ser = s
	serMu.Unlock()
	defer func() {
		serMu.Lock()
		ser = nil
		serMu.Unlock()
	}()
	// let every goroutine reach its start point, one at a time
	for _, sg := range s.list {
		sg.grant <- struct{}{}
		<-s.wake
	}
	for {
		var enabled []*sgor
		unfinished := 0
		for i, sg := range s.list {
			if sg.done {
				continue
			}
			unfinished++
			if sg.atPt && available(sg.want, sg.wwrite, gids[i]) && wgFree(sg.wantWG) {
				enabled = append(enabled, sg)
			}
		}
		if unfinished == 0 {
			return trace, widths, deadlocked
		}
		if len(enabled) == 0 {
			deadlocked = true
			s.dead = true
			var waits []string
			for _, sg := range s.list {
				if !sg.done && sg.want != nil {
					waits = append(waits, fmt.Sprintf("#%d wants %s (%s)", sg.rank, lname(sg.want), mode(sg.wwrite)))
				}
			}
			mon.Lock()
			report(fmt.Sprintf("deadlock under schedule %v: %v", trace, waits))
			mon.Unlock()
			for _, sg := range s.list {
				if !sg.done {
					sg.atPt = false
					sg.grant <- struct{}{}
					<-s.wake
				}
			}
			return trace, widths, true
		}
		choice := 0
		if len(trace) < len(prefix) && prefix[len(trace)] < len(enabled) {
			choice = prefix[len(trace)]
		}
		trace = append(trace, choice)
		widths = append(widths, len(enabled))
		sg := enabled[choice]
		sg.atPt = false
		sg.grant <- struct{}{}
		<-s.wake
	}
}

// WaitGroup is an instrumented sync.WaitGroup: the goroutines that added to it and have not called Done yet are
// the ones a Wait depends on; waiting for oneself, or for a goroutine that (transitively) waits for the waiter, is
// reported as a deadlock instead of blocking forever.
type WaitGroup struct {
	wg sync.WaitGroup
}

var wgOwners = map[*WaitGroup]map[uint64]int{}

func (w *WaitGroup) Add(n int) {
	g := GID()
	mon.Lock()
	if wgOwners[w] == nil {
		wgOwners[w] = map[uint64]int{}
	}
	wgOwners[w][g] += n
	if wgOwners[w][g] <= 0 {
		delete(wgOwners[w], g)
	}
	mon.Unlock()
	w.wg.Add(n)
}

func (w *WaitGroup) Done() {
	g := GID()
	mon.Lock()
	if m := wgOwners[w]; m != nil {
		if m[g] > 0 {
			m[g]--
			if m[g] == 0 {
				delete(m, g)
			}
		} else {
			for o := range m { // Done on behalf of another goroutine
				m[o]--
				if m[o] <= 0 {
					delete(m, o)
				}
				break
			}
		}
	}
	mon.Unlock()
	w.wg.Done()
}

func (w *WaitGroup) Wait() {
	g := GID()
	mon.Lock()
	var owners []uint64
	for o := range wgOwners[w] {
		owners = append(owners, o)
	}
	if len(owners) > 0 {
		m := map[uint64]bool{}
		for _, o := range owners {
			m[o] = true
		}
		if m[g] {
			msg := fmt.Sprintf("deadlock: goroutine %d waits on a WaitGroup that only it can release (it is inside the section the WaitGroup counts)", g)
			report(msg)
			mon.Unlock()
			panic(Deadlock{msg})
		}
		waitGor[g] = m
		if c := cycleFrom(g); c != nil {
			delete(waitGor, g)
			msg := fmt.Sprintf("deadlock: goroutine %d waits on a WaitGroup held by goroutines %v, waits-for cycle %v", g, owners, c)
			report(msg)
			mon.Unlock()
			panic(Deadlock{msg})
		}
	}
	mon.Unlock()
	// serialised mode: Wait is a scheduling point that is enabled only when nobody is counted
	if s, sg := curSerial(g); sg != nil {
		sg.wantWG = w
		s.point(sg, nil, false)
		sg.wantWG = nil
	}
	w.wg.Wait()
	mon.Lock()
	delete(waitGor, g)
	mon.Unlock()
}

func (w *WaitGroup) Go(f func()) {
	w.Add(1)
	go func() {
		defer w.Done()
		f()
	}()
}
