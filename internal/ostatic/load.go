// Package ostatic is the output oracle: it type-checks what moq emitted in the destination package moq was
// told about and derives per-property verdicts from the parsed/type-checked result. See DESIGN.md §2.2.
package ostatic

import (
	"bytes"
	"fmt"
	"go/ast"
	"go/build/constraint"
	"go/importer"
	"go/parser"
	"go/token"
	"go/types"
	"io"
	"os"
	"os/exec"
	"path"
	"runtime"
	"sort"
	"strings"
	"sync"
)

// StdImporter resolves standard-library packages from export data produced by the toolchain on PATH.
type StdImporter struct {
	mu      sync.Mutex
	fset    *token.FileSet
	exports map[string]string
	cache   map[string]*types.Package
	imp     types.ImporterFrom
}

var (
	stdOnce sync.Once
	stdImp  *StdImporter
)

// Std returns the process-wide std importer.
func Std() *StdImporter {
	stdOnce.Do(func() {
		s := &StdImporter{fset: token.NewFileSet(), exports: map[string]string{}, cache: map[string]*types.Package{}}
		s.imp = importer.ForCompiler(s.fset, "gc", func(p string) (io.ReadCloser, error) {
			f, ok := s.exports[p]
			if !ok || f == "" {
				if err := s.list(p); err != nil {
					return nil, err
				}
				f = s.exports[p]
			}
			if f == "" {
				return nil, fmt.Errorf("no export data for %q", p)
			}
			return os.Open(f)
		}).(types.ImporterFrom)
		_ = s.list("std")
		stdImp = s
	})
	return stdImp
}


func (s *StdImporter) list(pattern string) error {
	cmd := exec.Command("go", "list", "-export", "-f", "{{.ImportPath}}={{.Export}}", pattern)
	cmd.Env = append(os.Environ(), "GOFLAGS=")
	cmd.Dir = os.TempDir()
	var stderr bytes.Buffer
	cmd.Stderr = &stderr
	out, err := cmd.Output()
	if err != nil {
		return fmt.Errorf("go list -export %s: %v: %s", pattern, err, stderr.String())
	}
	for _, ln := range strings.Split(string(out), "\n") {
		if i := strings.IndexByte(ln, '='); i > 0 {
			s.exports[ln[:i]] = ln[i+1:]
		}
	}
	return nil
}

// IsStd reports whether p is a standard-library import path known to the toolchain.
func (s *StdImporter) IsStd(p string) bool {
	s.mu.Lock()
	defer s.mu.Unlock()
	_, ok := s.exports[p]
	return ok
}

// Import implements types.Importer.
func (s *StdImporter) Import(p string) (*types.Package, error) {
	if p == "unsafe" {
		return types.Unsafe, nil
	}
	s.mu.Lock()
	defer s.mu.Unlock()
	if pkg, ok := s.cache[p]; ok {
		return pkg, nil
	}
	if _, ok := s.exports[p]; !ok {
		return nil, fmt.Errorf("package %s is not in std", p)
	}
	pkg, err := s.imp.ImportFrom(p, "", 0)
	if err != nil {
		return nil, err
	}
	s.cache[p] = pkg
	return pkg, nil
}

// LocalPkg is a package of the scratch tree, parsed and type-checked from source.
type LocalPkg struct {
	Path  string
	Dir   string
	Name  string
	Files []*ast.File
	Names []string // file paths relative to the tree root, parallel to Files
	Types *types.Package
	Info  *types.Info
}

// Tree is a loaded scratch tree.
type Tree struct {
	Fset    *token.FileSet
	ModPath string
	Pkgs    map[string]*LocalPkg // by import path
	Errs    []string             // load errors (a generator defect, never a verdict about moq)
}

// LoadTree parses and type-checks every package of a module given as path -> content.
// vendorDirs: when true, directories below "vendor/" are packages with import path = path below vendor/.
func LoadTree(modPath string, files map[string]string) *Tree {
	t := &Tree{Fset: token.NewFileSet(), ModPath: modPath, Pkgs: map[string]*LocalPkg{}}
	byDir := map[string][]string{}
	for rel := range files {
		if !strings.HasSuffix(rel, ".go") || strings.HasSuffix(rel, "_test.go") {
			continue
		}
		byDir[path.Dir(rel)] = append(byDir[path.Dir(rel)], rel)
	}
	for dir, rels := range byDir {
		sort.Strings(rels)
		ip := modPath
		if dir != "." {
			ip = modPath + "/" + dir
		}
		if i := strings.Index("/"+dir+"/", "/vendor/"); i >= 0 {
			ip = strings.TrimPrefix(("/" + dir)[i+len("/vendor/"):], "/")
		}
		lp := &LocalPkg{Path: ip, Dir: dir}
		for _, rel := range rels {
			if !buildConstraintHolds(files[rel]) {
				continue // not part of the build in this environment (what `go build` of the user would compile)
			}
			f, err := parser.ParseFile(t.Fset, rel, files[rel], parser.ParseComments|parser.SkipObjectResolution)
			if err != nil {
				t.Errs = append(t.Errs, err.Error())
				continue
			}
			lp.Files = append(lp.Files, f)
			lp.Names = append(lp.Names, rel)
			lp.Name = f.Name.Name
		}
		t.Pkgs[ip] = lp
	}
	state := map[string]int{}
	var visit func(ip string) error
	visit = func(ip string) error {
		lp := t.Pkgs[ip]
		if lp == nil {
			return nil
		}
		switch state[ip] {
		case 1:
			return fmt.Errorf("import cycle through %s", ip)
		case 2:
			return nil
		}
		state[ip] = 1
		for _, f := range lp.Files {
			for _, im := range f.Imports {
				if err := visit(strings.Trim(im.Path.Value, `"`)); err != nil {
					return err
				}
			}
		}
		lp.Info = NewInfo()
		conf := types.Config{Importer: t.Importer(""), Error: func(err error) { t.Errs = append(t.Errs, err.Error()) }}
		lp.Types, _ = conf.Check(ip, t.Fset, lp.Files, lp.Info)
		state[ip] = 2
		return nil
	}
	var ips []string
	for ip := range t.Pkgs {
		ips = append(ips, ip)
	}
	sort.Strings(ips)
	for _, ip := range ips {
		if err := visit(ip); err != nil {
			t.Errs = append(t.Errs, err.Error())
		}
	}
	return t
}

var (
	cgoOnce sync.Once
	cgoOn   bool
)

// cgoEnabled asks the go command of this environment (the one moq's children and the user's build see).
func cgoEnabled() bool {
	cgoOnce.Do(func() {
		cmd := exec.Command("go", "env", "CGO_ENABLED")
		cmd.Env = append(os.Environ(), "GOFLAGS=")
		out, err := cmd.Output()
		cgoOn = err == nil && strings.TrimSpace(string(out)) == "1"
	})
	return cgoOn
}

// buildConstraintHolds evaluates the //go:build line of a file (if any) for the default build configuration of
// this environment: GOOS, GOARCH, the gc compiler, cgo as the go command reports it, all release tags.
func buildConstraintHolds(src string) bool {
	for _, ln := range strings.Split(src, "\n") {
		t := strings.TrimSpace(ln)
		if t == "" || (strings.HasPrefix(t, "//") && !constraint.IsGoBuild(t)) {
			continue
		}
		if !constraint.IsGoBuild(t) {
			return true // reached the package clause
		}
		x, err := constraint.Parse(t)
		if err != nil {
			return true
		}
		return x.Eval(func(tag string) bool {
			switch {
			case tag == runtime.GOOS, tag == runtime.GOARCH, tag == "gc", tag == "unix" && runtime.GOOS == "linux":
				return true
			case tag == "cgo":
				return cgoEnabled()
			case strings.HasPrefix(tag, "go1."):
				return true
			}
			return false
		})
	}
	return true
}

// NewInfo allocates a fully populated types.Info.
func NewInfo() *types.Info {
	return &types.Info{
		Types:      map[ast.Expr]types.TypeAndValue{},
		Defs:       map[*ast.Ident]types.Object{},
		Uses:       map[*ast.Ident]types.Object{},
		Selections: map[*ast.SelectorExpr]*types.Selection{},
		Implicits:  map[ast.Node]types.Object{},
		Instances:  map[*ast.Ident]types.Instance{},
		Scopes:     map[ast.Node]*types.Scope{},
	}
}

type treeImporter struct {
	t      *Tree
	self   string                    // importing this path is an import cycle
	over   map[string]*types.Package // overrides
}

// Importer resolves tree packages first, then std. Importing `self` fails like the compiler's cycle check.
func (t *Tree) Importer(self string) types.Importer { return &treeImporter{t: t, self: self} }

func (ti *treeImporter) Import(p string) (*types.Package, error) {
	if p == ti.self && p != "" {
		return nil, fmt.Errorf("import cycle not allowed: package %s imports itself", p)
	}
	if ti.over != nil {
		if pkg, ok := ti.over[p]; ok {
			return pkg, nil
		}
	}
	if lp, ok := ti.t.Pkgs[p]; ok {
		if lp.Types == nil {
			return nil, fmt.Errorf("package %s not loaded", p)
		}
		return lp.Types, nil
	}
	return Std().Import(p)
}

// ConsistentAliases returns, for every import path that every importing file of the package aliases
// identically, that alias. A blank import names nothing and is ignored; a dot import makes the path inconsistent.
func (t *Tree) ConsistentAliases(pkgPath string) map[string]string {
	out := map[string]string{}
	bad := map[string]bool{}
	lp := t.Pkgs[pkgPath]
	if lp == nil {
		return out
	}
	for _, f := range lp.Files {
		for _, im := range f.Imports {
			p := strings.Trim(im.Path.Value, "`\"")
			alias := ""
			if im.Name != nil {
				alias = im.Name.Name
			}
			if alias == "_" {
				continue
			}
			if alias == "." {
				bad[p] = true
				continue
			}
			if prev, ok := out[p]; ok && prev != alias {
				bad[p] = true
			}
			out[p] = alias
		}
	}
	for p := range bad {
		delete(out, p)
	}
	for p, a := range out {
		if a == "" {
			delete(out, p)
		}
	}
	return out
}

// AllAliases returns every explicit alias any file of the package uses for each import path.
func (t *Tree) AllAliases(pkgPath string) map[string][]string {
	out := map[string][]string{}
	lp := t.Pkgs[pkgPath]
	if lp == nil {
		return out
	}
	for _, f := range lp.Files {
		for _, im := range f.Imports {
			if im.Name != nil {
				p := strings.Trim(im.Path.Value, "`\"")
				out[p] = append(out[p], im.Name.Name)
			}
		}
	}
	return out
}
