package store

import (
	"example.com/m787/b/json-go"
	jsonq0 "example.com/m787/c/json"
	thing "example.com/m787/fx/thing_impl"
	jsonq1 "example.com/m787/kit-go/json_impl"
	jsonq2 "example.com/m787/lib.v2/json"
	. "example.com/m787/pkg/go-json"
	jsonq3 "example.com/m787/third_party/a/go-json"
	"time"
	"unsafe"
)

type Iface0 interface {
	Find2(naïve map[[1]jsonq3.Iface]Table, tCP []Dot8Str, value unsafe.Pointer)
	Put0(intCh thing.List[jsonq1.Thing], x string, p [256]uint64)
}

type Iface3 interface {
	jsonq0.Str
	jsonq3.Emb5
}

type Iface4 interface {
	jsonq0.Str
}

type Iface4Alias = Iface4

type Iface6 interface {
	Save0(item jsonq0.Str, _ json.Record, nOut jsonq1.Iface) (int32, func(<-chan *time.Time, struct{F0 secret; F1 float64}) (interface{Am0(time.Duration)}, struct{F0 Key `json:"f0"`; F1 jsonq2.Num; Account}), *func(Dot8Num) (int32, jsonq1.Str))
	ID(idx func(error, rune) unsafe.Pointer, req Key, dst uint)
}

