#!/usr/bin/env python3
"""Regenerates /verif/MANIFEST.json from the table below (keeps it valid at all times)."""
import json, sys
props = [json.loads(l) for l in open('/verif/properties.jsonl')]
ids = [p['id'] for p in props]

STATIC_NOTE = "Trusts go/types of the same Go toolchain moq runs with as the definition of 'compiles' and of type identity; scratch trees are checked to load cleanly before use; open known findings (known_findings.json) are excluded from the random corpus by shape and exercised through their concrete inputs."
checks = {
 'C01': dict(engine='static', technique='runtime monitoring of the real moq binary: emitted bytes type-checked in the destination package (go/types oracle) over a seeded corpus of scratch modules', cat='exploration',
             text='Every accepted request of a seeded corpus (random source trees x flag/destination/formatter vectors) is run through the real binary and its output parsed and type-checked where moq was told it will live; held on K executions, not a proof.', ref='§3 C01'),
 'C02': dict(engine='static', technique='runtime monitoring: go/types method-set and field-type identity oracle on the emitted mock vs the interface object', cat='exploration',
             text='Method set of *Mock compared with the interface (types.Identical per method, assignability, one identical <M>Func field per method) on every corpus case, half of them with -skip-ensure.', ref='§3 C02'),
 'C09': dict(engine='static', technique='runtime monitoring: type-parameter list comparison, symbolic two-way instantiation and concrete instantiation pool via types.Instantiate', cat='exploration',
             text='For generic corpus interfaces: same arity; mock params satisfy interface constraints and vice versa (symbolic); a pool of concrete argument lists must be accepted/rejected identically and accepted instances compared method by method.', ref='§3 C09'),
 'C10': dict(engine='static', technique='runtime monitoring: import specs and resolved identifiers of the emitted file vs the destination mode; independent walk of interface signatures for source-package types', cat='exploration',
             text='Destination modes x -skip-ensure over-sampled; in-place output never imports itself, other-package output imports the source package exactly when needed.', ref='§3 C10'),
 'C11': dict(engine='static', technique='runtime monitoring: import block of the emitted file vs packages its qualified identifiers resolve to (go/types Uses), alias-collision heavy corpus', cat='exploration',
             text='Exact/unique/canonical import set, sync iff a method exists, valid unique qualifiers, source alias kept under a conservative no-conflict premise.', ref='§3 C11'),
 'C12': dict(engine='static', technique='runtime monitoring: AST + go/types resolution oracle on every generated method (distinct valid parameter identifiers, no capture of receiver/builtins/qualifiers/types, distinct record fields); exhaustive reserved-word/numbered/derived matrices', cat='exploration',
             text='Collision-heavy naming corpus; capture is detected through identifier resolution, not through a hard-coded list of moq locals.', ref='§3 C12'),
 'C13': dict(engine='static', technique='runtime monitoring: independent re-implementation of the export rule and the type-derived naming rule compared with emitted parameter and record-field names; collision premise decided by a replayed timeline of package registrations; exhaustive initialism/derived/numbered/stale matrices', cat='exploration',
             text='Record field = exported form of the parameter name; user names kept and derived names asserted only under a conservative collision-free premise.', ref='§3 C13'),
 'C20': dict(engine='static', technique='runtime monitoring: top-level declarations of joint requests and go/types comparison of each mock with its solo generation', cat='exploration',
             text='Multi-interface requests (2-4 interfaces, random order, aliases): mock names/order and per-mock fields, record layouts and method signatures equal the solo generation.', ref='§3 C20'),
}
notes = {k: STATIC_NOTE for k in checks}

extra = {}
try:
    extra = json.load(open('/verif/tools/manifest_extra.json'))
except Exception:
    pass
for k, v in extra.get('checks', {}).items():
    checks[k] = v
    notes[k] = v.get('note', STATIC_NOTE)

m = {
 "version": 1,
 "setup_cmd": "./setup.sh",
 "hooks": {"guard": "verif", "enable": "no hooks: /repo is built unmodified (go build); observation happens at process, file and API boundaries and generated code is instrumented on the emitted copy (sync import redirected)", "baseline_off_cmd": "/verif/tools/repotest.sh", "source_commits": [], "add_only": True},
 "engines": [
   {"name": "vcheck", "path": "cmd/vcheck", "serves_properties": sorted(checks), "kind_free_text": "Go binary hosting all engines: corpus generator, real-binary runner, go/types output oracle, CLI process monitor (strace ledger, snapshots), runtime drivers (race detector, instrumented sync, porcupine)"},
 ],
 "checks": [],
 "notes": "Fix commits in /repo are listed in known_findings.json (fixed); open findings print KNOWN-FINDING lines. Seeded breakage used for calibration is under seeded/.",
 "not_applicable": [],
}
for pid in ids:
    if pid in checks:
        c = checks[pid]
        m["checks"].append({
          "property_id": pid,
          "quick_cmd": "./run.sh %s quick" % pid,
          "thorough_cmd": "./run.sh %s thorough" % pid,
          "evidence_file": "evidence/%s.json" % pid,
          "replay_cmd_template": "./bin/vcheck replay {path}",
          "engine": "vcheck",
          "level_claimed": {"category": c['cat'], "text": c['text'], "design_ref": c['ref']},
          "level_note": notes[pid],
          "technique": c['technique'],
        })
    else:
        m["not_applicable"].append({"property_id": pid, "reason": "check under construction in this round (engine not registered yet); see DESIGN.md §3 for the planned monitor"})
json.dump(m, open('/verif/MANIFEST.json', 'w'), indent=1)
print("checks:", [c['property_id'] for c in m['checks']])
