#!/bin/bash
# usage: verify_seed.sh <dir containing patch.diff and demo/run.sh> -> prints one status line
# Confirms: patch applies to /repo HEAD, repo suite still passes (48), demo fails with the patch and passes without.
d=$(readlink -f "$1"); name=$(basename $(dirname $d))_$(basename $d)
. /verif/env.sh
wt=/tmp/vs/$name; rm -rf $wt; mkdir -p /tmp/vs
git -C /repo worktree add -q --detach $wt HEAD || { echo "$name: worktree failed"; exit 2; }
cleanup() { git -C /repo worktree remove --force $wt 2>/dev/null; rm -rf $wt /tmp/vs/$name.*; }
trap cleanup EXIT
if ! git -C $wt apply $d/patch.diff 2>/tmp/vs/$name.err; then
  if ! git -C $wt apply -3 $d/patch.diff 2>>/tmp/vs/$name.err; then echo "$name: PATCH DOES NOT APPLY: $(head -2 /tmp/vs/$name.err | tr '\n' ' ')"; exit 1; fi
fi
(cd $wt && go build ./... ) >/tmp/vs/$name.build 2>&1 || { echo "$name: does not compile"; exit 1; }
out=$(cd $wt && GOFLAGS=-mod=mod go test -vet=off -count=1 -v ./... 2>&1); pass=$(echo "$out" | grep -c -- "--- PASS")
git -C $wt checkout -- pkg/moq/testpackages/modules/go.mod 2>/dev/null
[ "$pass" = 48 ] || { echo "$name: suite pass=$pass (want 48)"; exit 1; }
(cd $d/demo && MOQ_SRC=$wt timeout 600 ./run.sh) >/tmp/vs/$name.with 2>&1; rc_with=$?
(cd $d/demo && MOQ_SRC=/repo timeout 600 ./run.sh) >/tmp/vs/$name.without 2>&1; rc_without=$?
echo "$name: applies suite=48 demo_with_patch=$rc_with demo_without=$rc_without"
[ $rc_with -ne 0 ] && [ $rc_without -eq 0 ]
