package top

import "example.com/kfq/src"

type Doer interface {
	src.Inner
}
