#!/bin/bash
# usage: seedcheck.sh <seeded/id> <tier> <prop> [prop...]   -- applies the patch to /repo, runs the checks, always reverts
d=/verif/seeded/$1; tier=$2; shift 2
cd /repo || exit 2
git diff --quiet || { echo "/repo has uncommitted changes"; exit 2; }
git apply "$d/patch.diff" || git apply -3 "$d/patch.diff" || { echo "patch does not apply"; exit 2; }
trap 'git -C /repo reset -q --hard HEAD; git -C /repo clean -fdq' EXIT
for p in "$@"; do
  out=$(cd /verif && ./run.sh $p $tier 2>&1); rc=$?
  echo "== $(basename $d) $p $tier: rc=$rc $(echo "$out" | grep -c '^VIOLATION') violations"; echo "$out" | grep '^VIOLATION' | head -3 | cut -c1-400
done
