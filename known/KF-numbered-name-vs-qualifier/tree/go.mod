module example.com/kfv

go 1.24
