module example.com/kfl

go 1.24
