module example.com/kfj

go 1.24
