package one

type T struct{}
