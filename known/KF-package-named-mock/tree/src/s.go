package src

import "example.com/kfn/mock"

type Doer interface{ Do(t mock.T) }
