#!/bin/bash
export V=${VERIF_SRC:-/verif}   # where the harness sources are read from (a snapshot copy keeps a long matrix run stable)
# Runs every seeded change against the check of its own property (and the related ones given in
# seeded/<id>/meta.json "also") on scratch worktrees, 4 at a time, and writes seeded/MATRIX.md.
cd $V
tier=${1:-quick}
filter=${2:-.}   # optional regex on seed ids; with a filter the result is appended to seeded/MATRIX.md
out=/tmp/matrix.$$; mkdir -p $out
ls seeded | grep -E '^C[0-9]+-m[0-9]+$' | grep -E "$filter" | while read id; do
  props=$(python3 -c "
import json;m=json.load(open('seeded/$id/meta.json'));print(' '.join([m['property']]+m.get('also',[])))")
  echo "$id $props"
done > $out/jobs
cat $out/jobs | xargs -P 3 -L 1 sh -c 'id=$0; shift 0; $V/tools/seedmatrix.sh "$id" '$tier' "$@" > '$out'/$id.log 2>&1'
{
echo "# Detection matrix of the seeded changes ($tier tier, $(date -u +%F))"
echo
echo "| change | property | needs | check | result |"
echo "|---|---|---|---|---|"
for id in $(cut -d' ' -f1 $out/jobs); do
  need=$(python3 -c "import json;print(json.load(open('seeded/$id/meta.json'))['needs_to_manifest'].replace('|','/'))")
  prop=$(python3 -c "import json;print(json.load(open('seeded/$id/meta.json'))['property'])")
  grep "^$id " $out/$id.log | while read _ p t rc viol rest; do
    r="MISSED"; [ "$rc" = "rc=1" ] && r="caught (${viol#violations=} violations)"; [ "$rc" = "rc=2" ] && r="inconclusive"
    echo "| $id | $prop | $need | $p $t | $r |"
  done
done
} > $out/MATRIX.new
if [ "$filter" = "." ]; then cp $out/MATRIX.new seeded/MATRIX.md; else grep -E '^\| C' $out/MATRIX.new >> seeded/MATRIX.md; fi
cat seeded/MATRIX.md | grep -c caught; grep -c MISSED seeded/MATRIX.md
rm -rf $out
