package src

import (
	"example.com/kfo/a/one"
	"example.com/kfo/inner"
)

type Doer interface {
	inner.Base
	Do(one string, t one.T)
}
