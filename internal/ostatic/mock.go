package ostatic

import (
	"go/ast"
	"go/token"
	"go/types"
	"strings"
)

// mock runs the per-mock oracles (C02, C08 static part, C09, C12, C13).
func (a *analysis) mock(np NamePair) {
	c := a.c
	if c.Pkg == nil || c.SrcPkg == nil {
		return
	}
	iobj := c.SrcPkg.Scope().Lookup(np.Iface)
	if iobj == nil {
		a.add("C02", "harness: interface %s not found in source package", np.Iface)
		return
	}
	mobj, _ := c.Pkg.Scope().Lookup(np.Mock).(*types.TypeName)
	if mobj == nil {
		a.add("C20", "no type named %s in the output", np.Mock)
		return
	}
	mnamed, _ := mobj.Type().(*types.Named)
	if mnamed == nil {
		a.add("C02", "%s is not a defined type", np.Mock)
		return
	}
	mstruct, _ := mnamed.Underlying().(*types.Struct)
	if mstruct == nil {
		a.add("C02", "%s is not a struct type", np.Mock)
		return
	}
	itype := iobj.Type()
	iface, _ := itype.Underlying().(*types.Interface)
	if iface == nil {
		return
	}
	var itparams *types.TypeParamList
	switch n := itype.(type) {
	case *types.Named:
		itparams = n.TypeParams()
	case *types.Alias:
		itparams = n.TypeParams()
	}
	// ---- C09: type parameter lists
	mtparams := mnamed.TypeParams()
	if itparams.Len() != mtparams.Len() {
		a.add("C09", "%s has %d type parameters, interface %s has %d", np.Mock, mtparams.Len(), np.Iface, itparams.Len())
		a.add("C02", "*%s cannot be assigned to %s: the mock has %d type parameters, the interface has %d", np.Mock, np.Iface, mtparams.Len(), itparams.Len())
		return
	}
	// a generic mock that does not type-check implements no instance of the interface
	if itparams.Len() > 0 {
		if ts := c.MockDecl(np.Mock); ts != nil {
			for _, e := range c.TypeErrs {
				in := e.Pos >= ts.Pos() && e.Pos <= ts.End()
				for _, fd := range c.MethodDecls(np.Mock) {
					if e.Pos >= fd.Pos() && e.Pos <= fd.End() {
						in = true
					}
				}
				if in {
					a.add("C09", "generic mock %s does not type-check: %s", np.Mock, e.Msg)
				}
			}
		}
	}
	ptrMock := types.Type(types.NewPointer(mnamed))
	ifaceT := itype
	mstructInst := mstruct
	if itparams.Len() > 0 {
		a.f.Generic++
		// symbolic instantiation in both directions: the mock's own parameters must satisfy the interface's
		// constraints and vice versa, i.e. both accept the same type-argument lists.
		margs := make([]types.Type, mtparams.Len())
		for i := range margs {
			margs[i] = mtparams.At(i)
		}
		iargs := make([]types.Type, itparams.Len())
		for i := range iargs {
			iargs[i] = itparams.At(i)
		}
		ctxt := types.NewContext()
		if _, err1 := types.Instantiate(ctxt, itype, margs, true); err1 != nil {
			a.add("C09", "constraints of %s are weaker than the interface's: %s[own params]: %v", np.Mock, np.Iface, err1)
		}
		if _, err2 := types.Instantiate(ctxt, mnamed, iargs, true); err2 != nil {
			a.add("C09", "constraints of %s are stronger than the interface's: %s[interface params]: %v", np.Mock, np.Mock, err2)
		}
		// compare methods on Mock[interface's own parameters] against the interface as declared: instantiating
		// the mock substitutes the per-method receiver type parameters.
		mi, _ := types.Instantiate(ctxt, mnamed, iargs, false)
		min, _ := mi.(*types.Named)
		if min == nil {
			return
		}
		ptrMock = types.NewPointer(min)
		if ii, err := types.Instantiate(ctxt, itype, iargs, false); err == nil {
			ifaceT = ii
		}
		if st, ok := min.Underlying().(*types.Struct); ok {
			mstructInst = st
		}
		a.concreteInstances(np, itype, mnamed, itparams)
	}
	// ---- C02: method set identity and assignability
	a.compareMethods(np, "C02", ptrMock, mstructInst, iface)
	if len(c.TypeErrs) == 0 && !types.AssignableTo(ptrMock, ifaceT) {
		a.add("C02", "*%s is not assignable to %s", np.Mock, np.Iface)
	}
	// exactly one <M>Func field per method, nothing else ending in Func that is not a method companion
	companions := map[string]bool{}
	for i := 0; i < iface.NumMethods(); i++ {
		companions[iface.Method(i).Name()+"Func"] = true
	}
	for i := 0; i < mstruct.NumFields(); i++ {
		f := mstruct.Field(i)
		if _, isFunc := f.Type().Underlying().(*types.Signature); isFunc && !companions[f.Name()] {
			a.add("C02", "%s has a function field %s that is the companion of no interface method", np.Mock, f.Name())
		}
	}
	a.f.Methods += iface.NumMethods()
	// ---- C08 static: reset API
	ms := types.NewMethodSet(ptrMock)
	imethods := map[string]bool{}
	for i := 0; i < iface.NumMethods(); i++ {
		imethods[iface.Method(i).Name()] = true
	}
	wantResets := map[string]bool{}
	if a.req.WithResets {
		wantResets["ResetCalls"] = true
		for m := range imethods {
			wantResets["Reset"+m+"Calls"] = true
		}
	}
	accessors := map[string]bool{}
	for m := range imethods {
		accessors[m+"Calls"] = true
	}
	for i := 0; i < ms.Len(); i++ {
		n := ms.At(i).Obj().Name()
		if imethods[n] || (accessors[n] && !wantResets[n]) {
			continue // an interface method, or the accessor of one (a method ResetX has the accessor ResetXCalls)
		}
		if strings.HasPrefix(n, "Reset") && strings.HasSuffix(n, "Calls") {
			if !wantResets[n] {
				if a.req.WithResets {
					a.add("C08", "%s has unexpected reset method %s", np.Mock, n)
				} else {
					a.add("C08", "%s has reset method %s although -with-resets was not given", np.Mock, n)
				}
			}
			sig := ms.At(i).Obj().Type().(*types.Signature)
			if sig.Params().Len() != 0 || sig.Results().Len() != 0 {
				a.add("C08", "%s.%s has parameters or results", np.Mock, n)
			}
			delete(wantResets, n)
		}
	}
	for n := range wantResets {
		a.add("C08", "%s lacks reset method %s although -with-resets was given", np.Mock, n)
	}
	// accessors
	for m := range imethods {
		if ms.Lookup(c.Pkg, m+"Calls") == nil {
			if o := iface; o != nil {
				a.add("C04", "%s has no accessor %sCalls", np.Mock, m)
			}
		}
	}
	a.names(np, mstruct, iface)
}

// compareMethods checks that ptrMock has every method of iface with an identical signature and an identical
// companion function field.
func (a *analysis) compareMethods(np NamePair, prop string, ptrMock types.Type, mstruct *types.Struct, iface *types.Interface) {
	c := a.c
	for i := 0; i < iface.NumMethods(); i++ {
		m := iface.Method(i)
		obj, _, _ := types.LookupFieldOrMethod(ptrMock, true, m.Pkg(), m.Name())
		fn, ok := obj.(*types.Func)
		if !ok {
			a.add(prop, "*%s has no method %s", np.Mock, m.Name())
			continue
		}
		if !types.Identical(fn.Type(), m.Type()) {
			a.add(prop, "method %s.%s has signature %s, interface has %s", np.Mock, m.Name(), fn.Type(), m.Type())
		}
		fobj, _, _ := types.LookupFieldOrMethod(ptrMock, true, c.Pkg, m.Name()+"Func")
		fv, ok := fobj.(*types.Var)
		if !ok || !fv.IsField() {
			a.add(prop, "%s has no field %sFunc", np.Mock, m.Name())
			continue
		}
		if !types.Identical(fv.Type(), m.Type()) {
			a.add(prop, "field %s.%sFunc has type %s, interface method has %s", np.Mock, m.Name(), fv.Type(), m.Type())
		}
	}
}

// Pool of concrete type arguments for C09.
func (a *analysis) argPool() []types.Type {
	u := types.Universe
	typ := func(n string) types.Type { return u.Lookup(n).Type() }
	pool := []types.Type{typ("int"), typ("string"), typ("float64"), typ("bool"), typ("error"), typ("any"),
		types.NewSlice(typ("int")), types.NewSlice(typ("string")), types.NewMap(typ("string"), typ("int")),
		types.NewPointer(typ("int")), types.NewChan(types.SendRecv, typ("int")),
		types.NewSignatureType(nil, nil, nil, nil, nil, false),
		types.NewStruct(nil, nil),
	}
	// named types of the source package and of its imports: named ints with methods etc.
	add := func(p *types.Package) {
		if p == nil {
			return
		}
		for _, n := range p.Scope().Names() {
			tn, ok := p.Scope().Lookup(n).(*types.TypeName)
			if !ok || !tn.Exported() && p != a.c.Pkg {
				continue
			}
			if nt, ok := tn.Type().(*types.Named); ok && nt.TypeParams().Len() == 0 {
				if _, isIface := nt.Underlying().(*types.Interface); isIface && !types.IsInterface(nt) {
					continue
				}
				if it, ok := nt.Underlying().(*types.Interface); ok && !it.IsMethodSet() {
					continue // constraint interfaces are not types
				}
				pool = append(pool, nt)
			}
		}
	}
	add(a.c.SrcPkg)
	if a.c.SrcPkg != nil {
		for _, p := range a.c.SrcPkg.Imports() {
			if len(pool) < 60 {
				add(p)
			}
		}
	}
	return pool
}

// concreteInstances instantiates interface and mock with concrete argument lists: both must accept/reject
// the same lists and accepted instances must implement each other method by method.
func (a *analysis) concreteInstances(np NamePair, itype types.Type, mnamed *types.Named, tps *types.TypeParamList) {
	pool := a.argPool()
	k := tps.Len()
	ctxt := types.NewContext()
	var lists [][]types.Type
	switch {
	case k == 1:
		for _, t := range pool {
			lists = append(lists, []types.Type{t})
		}
	default:
		// full product for k=2 over a thinned pool, diagonal + shifted samples for k>=3
		thin := pool
		if len(thin) > 14 {
			thin = thin[:14]
		}
		if k == 2 {
			for _, x := range thin {
				for _, y := range thin {
					lists = append(lists, []types.Type{x, y})
				}
			}
			// dependent constraints (V ~[]K): slices of pool types in second position
			for _, x := range thin {
				lists = append(lists, []types.Type{x, types.NewSlice(x)})
			}
		} else {
			for s := 0; s < len(pool); s++ {
				l := make([]types.Type, k)
				for j := range l {
					l[j] = pool[(s+j*3)%len(pool)]
				}
				lists = append(lists, l)
				l2 := make([]types.Type, k)
				for j := range l2 {
					l2[j] = pool[s%len(pool)]
				}
				lists = append(lists, l2)
			}
		}
	}
	for _, l := range lists {
		ii, ierr := types.Instantiate(ctxt, itype, l, true)
		mi, merr := types.Instantiate(ctxt, mnamed, l, true)
		a.f.Instances++
		if (ierr == nil) != (merr == nil) {
			a.add("C09", "type arguments %v: interface %s says %v, mock %s says %v", l, np.Iface, errStr(ierr), np.Mock, errStr(merr))
			continue
		}
		if ierr != nil {
			a.f.InstRejected++
			continue
		}
		a.f.InstOK++
		iface, _ := ii.Underlying().(*types.Interface)
		mst, _ := mi.Underlying().(*types.Struct)
		if iface == nil || mst == nil {
			continue
		}
		pm := types.NewPointer(mi)
		before := len(a.out)
		a.compareMethods(np, "C09", pm, mst, iface)
		if len(a.out) == before && len(a.c.TypeErrs) == 0 && !types.AssignableTo(pm, ii) {
			a.add("C09", "*%s%v does not implement %s%v", np.Mock, l, np.Iface, l)
		}
	}
}

func errStr(err error) string {
	if err == nil {
		return "accepted"
	}
	return "rejected (" + err.Error() + ")"
}

// names runs the identifier oracles C12 and C13 on every generated method of the mock.
func (a *analysis) names(np NamePair, mstruct *types.Struct, iface *types.Interface) {
	c := a.c
	decls := c.MethodDecls(np.Mock)
	// final qualifiers of the file always count as collisions; the own name of a package that ended up under
	// another qualifier counts only if the replayed timeline says it was the live qualifier when the parameter was
	// allocated (or became one later in the same method)
	quals := map[string]bool{}
	stale := map[string]bool{}
	for _, s := range c.Imports() {
		if s.Name != "" {
			quals[s.Name] = true
			if n := a.importedName(s.Path); n != s.Name {
				stale[n] = true
			}
		} else {
			quals[a.importedName(s.Path)] = true
		}
		// an alias some source file uses for this path was its qualifier until a conflict re-aliased it
		for _, al := range a.req.AllAliases[s.Path] {
			if al != "." && al != "_" && !quals[al] {
				stale[al] = true
			}
		}
	}
	for q := range quals {
		delete(stale, q)
	}
	if a.tl == nil {
		a.tl = a.buildTimeline()
	}
	ifaceIdx := 0
	for k, x := range a.req.Ifaces {
		if x == np {
			ifaceIdx = k
			break
		}
	}
	// record struct types: field "calls" of the mock
	var callsStruct *types.Struct
	for i := 0; i < mstruct.NumFields(); i++ {
		if mstruct.Field(i).Name() == "calls" {
			callsStruct, _ = mstruct.Field(i).Type().Underlying().(*types.Struct)
		}
	}
	// type errors located inside this mock's declarations belong to C12 when they are about identifiers
	for i := 0; i < iface.NumMethods(); i++ {
		m := iface.Method(i)
		isig := m.Type().(*types.Signature)
		fd := decls[m.Name()]
		if fd == nil {
			continue
		}
		// --- C12: AST level
		seen := map[string]bool{}
		var pnames []string
		for _, fl := range fd.Type.Params.List {
			for _, id := range fl.Names {
				pnames = append(pnames, id.Name)
				if !token.IsIdentifier(id.Name) {
					a.add("C12", "%s.%s: parameter name %q is not a valid identifier", np.Mock, m.Name(), id.Name)
				}
				if id.Name == "_" {
					a.add("C12", "%s.%s: blank parameter cannot be forwarded or recorded", np.Mock, m.Name())
				}
				if seen[id.Name] {
					a.add("C12", "%s.%s: two parameters are named %q", np.Mock, m.Name(), id.Name)
				}
				seen[id.Name] = true
			}
		}
		if len(pnames) != isig.Params().Len() {
			a.add("C12", "%s.%s: %d named parameters for %d interface parameters", np.Mock, m.Name(), len(pnames), isig.Params().Len())
			continue
		}
		for _, e := range c.TypeErrs {
			if e.Pos >= fd.Pos() && e.Pos <= fd.End() {
				a.add("C12", "%s.%s: identifier problem inside generated method: %s", np.Mock, m.Name(), e.Msg)
			}
		}
		// resolution of the names the body relies on
		if fd.Body != nil && fd.Recv != nil && len(fd.Recv.List) == 1 && len(fd.Recv.List[0].Names) == 1 {
			recvObj := c.Info.Defs[fd.Recv.List[0].Names[0]]
			recvName := fd.Recv.List[0].Names[0].Name
			ast.Inspect(fd.Body, func(n ast.Node) bool {
				id, ok := n.(*ast.Ident)
				if !ok {
					return true
				}
				use := c.Info.Uses[id]
				switch id.Name {
				case "nil", "panic", "append":
					if use != nil && use != types.Universe.Lookup(id.Name) {
						a.add("C12", "%s.%s: %q in the body resolves to %v instead of the predeclared identifier", np.Mock, m.Name(), id.Name, use)
					}
				case recvName:
					if use != nil && recvObj != nil && use != recvObj {
						if _, isField := use.(*types.Var); !isField || !use.(*types.Var).IsField() {
							a.add("C12", "%s.%s: %q in the body resolves to %v instead of the receiver", np.Mock, m.Name(), id.Name, use)
						}
					}
				}
				return true
			})
		}
		// record fields
		var rec *types.Struct
		if callsStruct != nil {
			for j := 0; j < callsStruct.NumFields(); j++ {
				if callsStruct.Field(j).Name() == m.Name() {
					if sl, ok := callsStruct.Field(j).Type().(*types.Slice); ok {
						rec, _ = sl.Elem().Underlying().(*types.Struct)
					}
				}
			}
		}
		if rec == nil {
			if len(c.TypeErrs) == 0 {
				a.add("C04", "%s: no call-record slice for method %s", np.Mock, m.Name())
			}
			continue
		}
		if rec.NumFields() != len(pnames) {
			a.add("C12", "%s.%s: %d record fields for %d parameters", np.Mock, m.Name(), rec.NumFields(), len(pnames))
			continue
		}
		fseen := map[string]bool{}
		for j := 0; j < rec.NumFields(); j++ {
			if fseen[rec.Field(j).Name()] {
				a.add("C12", "%s.%s: two record fields are named %s", np.Mock, m.Name(), rec.Field(j).Name())
			}
			fseen[rec.Field(j).Name()] = true
		}
		// accessor element type must be the same struct
		if acc := decls[m.Name()+"Calls"]; acc != nil {
			if obj, ok := c.Info.Defs[acc.Name].(*types.Func); ok {
				sig := obj.Type().(*types.Signature)
				// compared through index-based type keys: on a generic mock the accessor's receiver type parameters are
				// different objects from the type declaration's
				if sig.Results().Len() != 1 || TypeKey(sig.Results().At(0).Type()) != TypeKey(types.NewSlice(rec)) {
					if len(c.TypeErrs) == 0 {
						a.add("C04", "%s.%sCalls does not return the record slice type", np.Mock, m.Name())
					}
				}
			}
		}
		// --- C13
		a.f.Params += len(pnames)
		// the identifiers the generated method must still resolve: everything mentioned in its declaration
		// other than the parameter/result identifiers themselves
		universe := map[string]bool{}
		paramIdents := map[*ast.Ident]bool{}
		for _, fl := range fd.Type.Params.List {
			for _, id := range fl.Names {
				paramIdents[id] = true
			}
		}
		ast.Inspect(fd, func(n ast.Node) bool {
			if id, ok := n.(*ast.Ident); ok && !paramIdents[id] {
				if _, isParamUse := c.Info.Uses[id].(*types.Var); isParamUse && seen[id.Name] && !c.Info.Uses[id].(*types.Var).IsField() {
					return true
				}
				universe[id.Name] = true
			}
			return true
		})
		for q := range quals {
			universe[q] = true
		}
		// predeclared type names count as collisions (a rename that avoids shadowing bool, string, error, any ... is
		// forced); predeclared functions and constants only when the declaration mentions them (found above)
		for _, n := range types.Universe.Names() {
			if _, isType := types.Universe.Lookup(n).(*types.TypeName); isType {
				universe[n] = true
			}
		}
		// type names that are visible unqualified in the destination (in place: every package-level type)
		wanted := make([]string, len(pnames))
		assertable := make([]bool, len(pnames))
		for j := range pnames {
			u := isig.Params().At(j).Name()
			if u != "" && u != "_" {
				wanted[j], assertable[j] = u, true
				a.f.NamedPars++
			} else {
				a.f.UnnamedPars++
				wanted[j], assertable[j] = DerivedName(isig.Params().At(j).Type())
			}
		}
		var resultWanted []string
		for j := 0; j < isig.Results().Len(); j++ {
			r := isig.Results().At(j)
			if r.Name() != "" && r.Name() != "_" {
				resultWanted = append(resultWanted, r.Name()+"Out")
			} else if d, ok := DerivedName(r.Type()); ok {
				resultWanted = append(resultWanted, d+"Out")
			} else {
				resultWanted = append(resultWanted, "")
			}
		}
		for j, g := range pnames {
			if got, want := rec.Field(j).Name(), ExportedName(g); got != want {
				a.add("C13", "%s.%s: record field of parameter %q is %q, want %q", np.Mock, m.Name(), g, got, want)
			}
			if !assertable[j] || wanted[j] == "" {
				if g != wanted[j] {
					a.f.Renamed++
				}
				continue
			}
			w := wanted[j]
			collides := universe[w] || token.IsKeyword(w)
			if stale[w] && !collides {
				col, unsure := a.tl.importCollision(ifaceIdx, i, j, w)
				if col || unsure {
					collides = true
				} else {
					a.f.StaleNameAsserted++
				}
			}
			if c.InPlace && c.SrcPkg.Scope().Lookup(w) != nil {
				collides = true
			}
			for k := range pnames {
				if k != j && (wanted[k] == w || pnames[k] == w) {
					collides = true
				}
				// numbered stems: another parameter's stem plus digits may legitimately take this name
				if k != j && wanted[k] != "" && strings.HasPrefix(w, wanted[k]) && isDigits(w[len(wanted[k]):]) {
					collides = true
				}
			}
			for _, rw := range resultWanted {
				if rw == w {
					collides = true
				}
			}
			// parameters whose wanted name the rule does not pin: use the stem of what they ended up with
			for k := range pnames {
				if k != j && !assertable[k] && stem(pnames[k]) == w {
					collides = true
				}
			}
			// suffixed forms moq generates for others may equal this name
			for k := range pnames {
				if k != j && (wanted[k]+"MoqParam" == w) {
					collides = true
				}
			}
			if collides {
				if g != w {
					a.f.Renamed++
				}
				continue
			}
			if g != w {
				u := isig.Params().At(j).Name()
				if u != "" && u != "_" {
					a.add("C13", "%s.%s: user-written parameter name %q collides with nothing but became %q", np.Mock, m.Name(), w, g)
				} else {
					a.add("C13", "%s.%s: unnamed parameter of type %s is named %q, the type-derived rule gives %q", np.Mock, m.Name(), isig.Params().At(j).Type(), g, w)
				}
			} else if u := isig.Params().At(j).Name(); u != "" && u != "_" {
				a.f.KeptOK++
			} else {
				a.f.DerivedOK++
			}
		}
		// the function field must use the same parameter names (it is what users write closures against)
		if fv, _, _ := types.LookupFieldOrMethod(types.NewPointer(mstruct), true, c.Pkg, m.Name()+"Func"); fv != nil {
			if fsig, ok := fv.Type().(*types.Signature); ok && fsig.Params().Len() == len(pnames) {
				for j := range pnames {
					if fsig.Params().At(j).Name() != pnames[j] {
						a.add("C13", "%s: field %sFunc names parameter %d %q, method names it %q", np.Mock, m.Name(), j, fsig.Params().At(j).Name(), pnames[j])
					}
				}
			}
		}
	}
}

func isDigits(s string) bool {
	if s == "" {
		return false
	}
	for _, r := range s {
		if r < '0' || r > '9' {
			return false
		}
	}
	return true
}

// stem strips the suffixes moq appends when it de-conflicts a name.
func stem(n string) string {
	n = strings.TrimRight(n, "0123456789")
	return strings.TrimSuffix(n, "MoqParam")
}
