package x

type T struct{}
