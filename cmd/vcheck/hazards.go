package main

import "verif/internal/gen"

// currentHazards says which defect-triggering input shapes are part of the random corpus. A shape is on
// once its defect is fixed in /repo (see known_findings.json "fixed"); open findings keep theirs off and are
// exercised through their concrete inputs under known/.
func currentHazards() gen.Hazards {
	return gen.Hazards{}
}
