package util

type U struct{}
