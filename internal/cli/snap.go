package cli

import (
	"crypto/sha256"
	"fmt"
	"os"
	"path/filepath"
	"sort"
)

// Entry describes one file-system object.
type Entry struct {
	Mode os.FileMode
	Size int64
	Sum  string
	Link string
}

// Snapshot maps relative paths to entries.
type Snapshot map[string]Entry

// Snap records the tree below root.
func Snap(root string) Snapshot {
	s := Snapshot{}
	filepath.Walk(root, func(p string, info os.FileInfo, err error) error {
		if err != nil {
			return nil
		}
		rel, _ := filepath.Rel(root, p)
		e := Entry{Mode: info.Mode()}
		switch {
		case info.Mode()&os.ModeSymlink != 0:
			e.Link, _ = os.Readlink(p)
		case info.Mode().IsRegular():
			b, err := os.ReadFile(p)
			if err == nil {
				e.Size = int64(len(b))
				e.Sum = fmt.Sprintf("%x", sha256.Sum256(b))
			}
		}
		s[rel] = e
		return nil
	})
	return s
}

// Diff lists differences between two snapshots as "kind path".
func Diff(before, after Snapshot) []string {
	var out []string
	for p, b := range before {
		a, ok := after[p]
		switch {
		case !ok:
			out = append(out, "deleted "+p)
		case a != b:
			out = append(out, fmt.Sprintf("changed %s (%v/%d/%.8s -> %v/%d/%.8s)", p, b.Mode, b.Size, b.Sum, a.Mode, a.Size, a.Sum))
		}
	}
	for p := range after {
		if _, ok := before[p]; !ok {
			out = append(out, "created "+p)
		}
	}
	sort.Strings(out)
	return out
}
