#!/bin/bash
export V=${VERIF_SRC:-/verif}   # where the harness sources are read from (a snapshot copy keeps a long matrix run stable)
# usage: seedmatrix.sh <seed-id> <tier> <prop> [prop...]
# Runs checks against a seeded change WITHOUT touching /repo: the patch is applied to a scratch worktree, the
# harness is rebuilt against it (alternate -modfile with the replace pointing there) and run with
# VERIF_REPO/VERIF_ROOT redirected. Prints one line per (seed, property).
id=$1; tier=$2; shift 2
. $V/env.sh
sc=/tmp/sc/$id; rm -rf $sc $sc-root; mkdir -p /tmp/sc $sc-root
git -C /repo worktree add -q --detach $sc HEAD || exit 2
cleanup() { git -C /repo worktree remove --force $sc 2>/dev/null; rm -rf $sc $sc-root; }
trap cleanup EXIT
git -C $sc apply $V/seeded/$id/patch.diff 2>/dev/null || git -C $sc apply -3 $V/seeded/$id/patch.diff 2>/dev/null || { echo "$id: patch does not apply"; exit 2; }
for f in known known_findings.json monitors; do ln -s $V/$f $sc-root/$f; done
mkdir -p $sc-root/evidence $sc-root/replay
sed "s|=> /repo|=> $sc|" $V/go.mod > $sc-root/go.mod; cp $V/go.sum $sc-root/go.sum
(cd $V && go build -modfile=$sc-root/go.mod -o $sc-root/vcheck ./cmd/vcheck) || { echo "$id: harness does not build against the patched tree"; exit 2; }
for p in "$@"; do
  out=$(cd $V && VERIF_REPO=$sc VERIF_ROOT=$sc-root $sc-root/vcheck $p $tier 2>&1); rc=$?
  n=$(echo "$out" | grep -c '^VIOLATION')
  echo "$id $p $tier rc=$rc violations=$n :: $(echo "$out" | grep '^VIOLATION' | head -1 | sed 's/replay=[^ ]* //' | cut -c1-260)"
done
