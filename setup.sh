#!/bin/bash
# Run once after a fresh restore: build the harness from files on disk only.
set -e
cd "$(dirname "$0")"
. ./env.sh
mkdir -p bin evidence replay
go build -o bin/vcheck ./cmd/vcheck
echo "setup ok: $(go version)"
