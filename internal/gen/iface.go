package gen

import (
	"fmt"
	"math/rand"
	"strings"
	"unicode"
)

var (
	methodPool = []string{"Get", "Put", "Do", "List", "Find", "Update", "Delete", "Open", "Send", "Recv", "Apply", "Visit", "Handle", "Load", "Save", "Run", "Watch", "Lookup", "Count", "Each", "Id", "ID", "Url", "Json", "Http"}
	plainNames = []string{"a", "key", "value", "name", "count", "opts", "req", "data", "item", "idx", "src", "dst", "when", "p", "q", "x", "y"}
	// names that collide with names moq generates or resolves
	collideNames = []string{"s", "s1", "s2", "s3", "n", "n1", "n2", "err", "err1", "ctx", "b", "f", "fn", "v", "val", "in", "out", "ifaceVal", "sOut", "errOut", "nOut", "sMoqParam", "errMoqParam", "sync", "fmt", "mocked", "lock", "calls", "i", "ok", "t"}
	initialisms  = []string{"ACL", "API", "ASCII", "CPU", "CSS", "DNS", "EOF", "GUID", "HTML", "HTTP", "HTTPS", "ID", "IP", "JSON", "LHS", "QPS", "RAM", "RHS", "RPC", "SLA", "SMTP", "SQL", "SSH", "TCP", "TLS", "TTL", "UDP", "UI", "UID", "UUID", "URI", "URL", "UTF8", "VM", "XML", "XMPP", "XSRF", "XSS"}
	oddNames     = []string{"a_b", "x1", "_x", "camelCase", "PascalCase", "ALLCAPS", "a1b2", "__", "x_", "userID", "httpClient", "Id2"}
	nonASCII     = []string{"ñame", "naïve", "Δ", "été", "über"}
	basicNames   = []string{"int", "string", "bool", "float64", "byte", "rune", "uint", "int64", "uint8", "error", "any", "uintptr", "complex128", "float32", "int32", "uint64"}
	comparableBasics = []string{"int", "string", "bool", "float64", "byte", "rune", "uint", "int64"}
	// names a user-written parameter must not take while the capture defects are open findings
	captureNames = map[string]bool{"mock": true, "callInfo": true, "nil": true, "panic": true, "append": true}
	goKeywords   = map[string]bool{"break": true, "default": true, "func": true, "interface": true, "select": true, "case": true, "defer": true, "go": true, "map": true, "struct": true, "chan": true, "else": true, "goto": true, "package": true, "switch": true, "const": true, "fallthrough": true, "if": true, "range": true, "type": true, "continue": true, "for": true, "import": true, "return": true, "var": true}
)

func (b *builder) allDeps() []*Dep {
	var ds []*Dep
	ds = append(ds, b.t.Deps...)
	ds = append(ds, b.t.Std...)
	return ds
}

type tctx struct {
	exportedOnly bool
	tparams      []TParam
	comparable   bool
	depth        int
	noValueStructs bool
}

// genType produces a random type.
func (b *builder) genType(c tctx) *T {
	if !c.comparable && b.chance(0.02) {
		// a record of 2 KiB by value
		return &T{Kind: KArray, ArrLen: "256", Elem: basic("uint64")}
	}
	if c.depth <= 0 || b.chance(0.45) {
		return b.genLeaf(c)
	}
	c.depth--
	if c.comparable {
		switch b.rng.Intn(4) {
		case 0:
			cc := c
			cc.comparable = false
			return ptr(b.genType(cc))
		case 1:
			return &T{Kind: KArray, ArrLen: b.arrLen(), Elem: b.genType(c)}
		case 2:
			return &T{Kind: KStruct, Fields: []Field{{Name: "A", Type: b.genType(c)}, {Name: "B", Type: b.genLeaf(c)}}}
		default:
			cc := c
			cc.comparable = false
			return &T{Kind: KChan, Elem: b.genType(cc)}
		}
	}
	switch b.rng.Intn(10) {
	case 0:
		return ptr(b.genType(c))
	case 1:
		return slice(b.genType(c))
	case 2:
		return &T{Kind: KArray, ArrLen: b.arrLen(), Elem: b.genType(c)}
	case 3:
		kc := c
		kc.comparable = true
		kc.depth = min(kc.depth, 1)
		return &T{Kind: KMap, Key: b.genType(kc), Elem: b.genType(c)}
	case 4:
		return &T{Kind: KChan, Dir: b.rng.Intn(3), Elem: b.genType(c)}
	case 5, 6:
		f := &T{Kind: KFunc}
		for i, n := 0, b.rng.Intn(3); i < n; i++ {
			f.Params = append(f.Params, b.genType(c))
		}
		for i, n := 0, b.rng.Intn(3); i < n; i++ {
			f.Results = append(f.Results, b.genType(c))
		}
		if len(f.Params) > 0 && b.chance(0.25) {
			f.Variadic = true
			f.Params[len(f.Params)-1] = slice(b.genType(c))
		}
		return f
	case 7:
		st := &T{Kind: KStruct}
		for i, n := 0, 1+b.rng.Intn(2); i < n; i++ {
			fl := Field{Name: fmt.Sprintf("F%d", i), Type: b.genType(c)}
			if b.chance(0.3) {
				fl.Tag = fmt.Sprintf(`json:"f%d"`, i)
			}
			st.Fields = append(st.Fields, fl)
		}
		if b.chance(0.25) {
			// embedded field: a named struct type (exported field name = type name)
			e := b.namedStruct(c)
			if e != nil {
				st.Fields = append(st.Fields, Field{Type: e})
			}
		}
		return st
	case 8:
		it := &T{Kind: KIface}
		for i, n := 0, 1+b.rng.Intn(2); i < n; i++ {
			m := IMethod{Name: fmt.Sprintf("Am%d", i)}
			for j, k := 0, b.rng.Intn(2); j < k; j++ {
				m.Params = append(m.Params, b.genType(c))
			}
			for j, k := 0, b.rng.Intn(2); j < k; j++ {
				m.Results = append(m.Results, b.genType(c))
			}
			it.Methods = append(it.Methods, m)
		}
		if b.chance(0.4) {
			if e := b.embeddableIface(c, nil); e != nil {
				it.Embeds = append(it.Embeds, e)
			}
		}
		return it
	default:
		// instantiated generic
		arg := b.genType(c)
		if len(b.t.Deps) > 0 && b.chance(0.5) {
			d := b.t.Deps[b.rng.Intn(len(b.t.Deps))]
			if d.GenAlias != "" && b.chance(0.4) {
				// generic alias over an unnamed type, with a named type of another package as argument
				o := b.t.Deps[b.rng.Intn(len(b.t.Deps))]
				return &T{Kind: KPkg, Pkg: d, Name: d.GenAlias, Args: []*T{pkgT(o, o.Struct)}}
			}
			return &T{Kind: KPkg, Pkg: d, Name: d.Gen, Args: []*T{arg}}
		}
		return &T{Kind: KLocal, Name: b.t.Locals.Gen, Args: []*T{arg}}
	}
}

func (b *builder) arrLen() string {
	if b.chance(0.3) {
		return b.t.Locals.Const
	}
	return fmt.Sprint(1 + b.rng.Intn(8))
}

func (b *builder) namedStruct(c tctx) *T {
	if len(b.t.Deps) > 0 && b.chance(0.5) {
		d := b.t.Deps[b.rng.Intn(len(b.t.Deps))]
		return pkgT(d, d.Struct)
	}
	return local(b.t.Locals.Struct)
}

// embeddableIface returns an interface type suitable for embedding whose methods do not clash with `taken`.
func (b *builder) embeddableIface(c tctx, taken map[string]bool) *T {
	type cand struct {
		t  *T
		ms []string
	}
	var cs []cand
	l := b.t.Locals
	cs = append(cs, cand{local(l.Emb), []string{l.EmbMethod}}, cand{local(l.StrIf), []string{"String"}})
	for _, d := range b.t.Deps {
		cs = append(cs, cand{pkgT(d, d.Embed), d.EmbedMethods})
		cs = append(cs, cand{pkgT(d, d.StrIf), []string{"String"}})
	}
	for _, d := range b.t.Std {
		if d.Embed != "" {
			cs = append(cs, cand{pkgT(d, d.Embed), d.EmbedMethods})
		}
		if d.StrIf != "" {
			cs = append(cs, cand{pkgT(d, d.StrIf), []string{"String"}})
		}
	}
	for tries := 0; tries < 6; tries++ {
		k := cs[b.rng.Intn(len(cs))]
		ok := true
		for _, m := range k.ms {
			if taken != nil && taken[m] {
				ok = false
			}
		}
		if ok {
			if taken != nil {
				for _, m := range k.ms {
					taken[m] = true
				}
			}
			return k.t
		}
	}
	return nil
}

func (b *builder) genLeaf(c tctx) *T {
	l := b.t.Locals
	for {
		switch b.rng.Intn(10) {
		case 0, 1, 2:
			if c.comparable {
				return basic(b.pick(comparableBasics))
			}
			return basic(b.pick(basicNames))
		case 3, 4:
			// local named types
			var pool []string
			if c.comparable {
				pool = []string{l.Struct, l.Key, l.Chan, l.Alias, l.StrIf}
			} else {
				pool = []string{l.Struct, l.Func, l.Slice, l.Map, l.Chan, l.Key, l.Alias, l.StrIf, l.Emb}
				if !c.exportedOnly && b.chance(0.15) {
					return &T{Kind: KLocal, Name: l.Secret, Unexported: true}
				}
			}
			return local(b.pick(pool))
		case 5, 6, 7:
			if len(b.t.Deps) == 0 {
				continue
			}
			d := b.t.Deps[b.rng.Intn(len(b.t.Deps))]
			var pool []string
			if c.comparable {
				pool = []string{d.Struct, d.Num, d.Ifaces[0]}
			} else {
				pool = []string{d.Struct, d.Num, d.Ifaces[0], d.Func, d.Embed, d.StrIf}
			}
			return pkgT(d, b.pick(pool))
		case 8:
			d := b.t.Std[b.rng.Intn(len(b.t.Std))]
			var pool []string
			pool = append(pool, d.Ifaces...)
			if d.Num != "" {
				pool = append(pool, d.Num)
			}
			if !c.comparable {
				pool = append(pool, d.Extra...)
			}
			if len(pool) > 0 && b.chance(0.7) {
				return pkgT(d, b.pick(pool))
			}
			if d.Struct != "" {
				// std structs are passed by pointer (several contain locks)
				return ptr(pkgT(d, d.Struct))
			}
			continue
		default:
			if len(c.tparams) == 0 {
				continue
			}
			tp := c.tparams[b.rng.Intn(len(c.tparams))]
			if c.comparable && !tp.Comparable {
				continue
			}
			return &T{Kind: KTParam, Name: tp.Name}
		}
	}
}

func min(a, b int) int {
	if a < b {
		return a
	}
	return b
}

// typeNamesOf lists every bare identifier a rendered type can mention (type names, qualifiers excluded).
func typeNamesOf(t *T, into map[string]bool) {
	t.Walk(func(x *T) {
		switch x.Kind {
		case KBasic, KLocal, KTParam:
			into[x.Name] = true
		case KPkg:
			if x.Pkg.SrcAlias == "." {
				into[x.Name] = true
			}
		case KArray:
			into[x.ArrLen] = true
		}
	})
}

func exported(s string) string {
	for _, in := range initialisms {
		if strings.ToUpper(s) == in {
			return in
		}
	}
	return strings.ToUpper(s[0:1]) + s[1:]
}

func isASCII(s string) bool {
	for _, r := range s {
		if r > unicode.MaxASCII {
			return false
		}
	}
	return true
}

// userName picks a name for a user-named parameter or result.
func (b *builder) userName(taken map[string]bool, forbidden map[string]bool) string {
	for try := 0; ; try++ {
		var n string
		switch {
		case try > 30:
			n = fmt.Sprintf("arg%d", try)
		case b.chance(b.prof.Collide):
			switch b.rng.Intn(6) {
			case 0, 1:
				n = b.pick(collideNames)
			case 2:
				// a dependency package name or a derived alias moq may generate
				ds := b.allDeps()
				d := ds[b.rng.Intn(len(ds))]
				n = d.Name
				if d.Dir != "" && b.chance(0.4) {
					parts := strings.Split(d.Dir, "/")
					if len(parts) >= 2 {
						n = strings.ToLower(sanitiser.Replace(parts[len(parts)-2])) + d.Name
					}
				}
				if d.SrcAlias != "" && d.SrcAlias != "." && b.chance(0.4) {
					n = d.SrcAlias
				}
			case 3:
				in := b.pick(initialisms)
				switch b.rng.Intn(4) {
				case 0:
					n = strings.ToLower(in)
				case 1:
					n = in
				case 2:
					n = in[:1] + strings.ToLower(in[1:])
				default:
					n = strings.ToLower(in[:1]) + in[1:]
				}
			case 4:
				n = b.pick(oddNames)
			default:
				// type-derived names of local things
				l := b.t.Locals
				n = b.pick([]string{strings.ToLower(l.Struct[:1]) + l.Struct[1:], strings.ToLower(l.Struct[:1]) + l.Struct[1:] + "s", "handler", "key", "box", "stringToInt", "intCh", "ns", "ss"})
			}
			if b.hz.NonASCIIName && b.chance(0.1) {
				n = b.pick(nonASCII)
			}
		default:
			n = b.pick(plainNames)
		}
		if taken[n] || goKeywords[n] || n == "_" && false {
			continue
		}
		if !b.hz.UserNameCapture && (captureNames[n] || forbidden[n]) {
			continue
		}
		if !b.hz.AliasCapture && b.genAliases[n] {
			continue
		}
		if b.prof.Regen && !b.hz.RegenAliasFeedback {
			clash := false
			for _, d := range b.allDeps() {
				if d.Name == n {
					clash = true
				}
			}
			if clash {
				continue
			}
		}
		if !b.hz.CaseFoldFields {
			clash := false
			for o := range taken {
				if o != "" && o != "_" && exported(o) == exported(n) {
					clash = true
				}
			}
			if clash {
				continue
			}
		}
		if !b.hz.NumberedDup && numberedRisk(n, taken) {
			continue
		}
		return n
	}
}

// numberedRisk reports whether a user name looks like <stem><digits>; together with unnamed/blank
// parameters sharing the stem this triggers the open numbering finding, so such names are only used in
// all-named parameter lists without blanks (the caller passes taken["_"] when blanks are possible).
func numberedRisk(n string, taken map[string]bool) bool {
	if !taken["_"] {
		return false
	}
	return len(n) > 1 && n[len(n)-1] >= '0' && n[len(n)-1] <= '9'
}

// genParams builds a parameter or result list.
func (b *builder) genParams(n int, c tctx, results bool, forbidden map[string]bool, takenAll map[string]bool) ([]Param, bool) {
	ps := make([]Param, n)
	for i := range ps {
		ps[i].Type = b.genType(c)
	}
	variadic := false
	if !results && n > 0 && b.chance(0.2) {
		variadic = true
		el := b.genType(c)
		if b.chance(0.3) {
			el = basic("any")
		} else if len(b.t.Deps) > 0 && b.chance(0.4) {
			d := b.t.Deps[b.rng.Intn(len(b.t.Deps))]
			el = pkgT(d, d.Struct)
		}
		ps[n-1].Type = slice(el)
	}
	mode := b.rng.Intn(3) // 0 unnamed, 1 named, 2 named with blanks
	if n == 0 {
		return ps, variadic
	}
	if mode == 0 {
		return ps, variadic
	}
	if mode == 2 {
		takenAll["_"] = true // marks that blanks (generated names) may occur
	}
	for i := range ps {
		if mode == 2 && b.chance(0.4) {
			ps[i].Name = "_"
			continue
		}
		names := map[string]bool{}
		typeNamesOf(ps[i].Type, names)
		ps[i].Name = b.userName(takenAll, forbidden)
		takenAll[ps[i].Name] = true
	}
	return ps, variadic
}

func (b *builder) makeIfaces() {
	t := b.t
	nfiles := 1 + b.rng.Intn(3)
	usedMethodsGlobal := 0
	_ = usedMethodsGlobal
	for k := 0; k < b.prof.NIfaces; k++ {
		i := &Iface{Name: fmt.Sprintf("Iface%d", k), File: b.rng.Intn(nfiles), Exportable: true}
		if b.chance(0.15) {
			i.Name = b.pick([]string{"Store", "Service", "Repo", "Client", "Doer"}) + fmt.Sprint(k)
		}
		c := tctx{depth: b.prof.MaxDepth, exportedOnly: b.prof.Runtime || b.chance(0.7)}
		if b.chance(b.prof.Generic) {
			b.genTParams(i)
			c.tparams = i.TParams
		}
		taken := map[string]bool{"Base": true} // method names
		// embedded interfaces
		if b.prof.Cluster && k%2 == 0 {
			hub := t.Deps[0]
			i.Embeds = append(i.Embeds, pkgT(hub, hub.Embed))
			for _, mname := range hub.EmbedMethods {
				taken[mname] = true
			}
		}
		if b.chance(0.3) {
			for n := 1 + b.rng.Intn(2); n > 0; n-- {
				if e := b.embeddableIface(c, taken); e != nil {
					i.Embeds = append(i.Embeds, e)
				}
			}
		}
		if len(i.TParams) > 0 && b.chance(0.3) {
			i.Embeds = append(i.Embeds, &T{Kind: KLocal, Name: t.Locals.GenBase, Args: []*T{{Kind: KTParam, Name: i.TParams[0].Name}}})
		}
		nm := b.rng.Intn(5)
		if len(i.Embeds) == 0 && nm == 0 && !b.chance(0.2) {
			nm = 1
		}
		for j := 0; j < nm; j++ {
			var name string
			for {
				name = b.pick(methodPool)
				if b.chance(0.3) {
					name += fmt.Sprint(b.rng.Intn(3))
				}
				if !taken[name] {
					break
				}
			}
			taken[name] = true
			if !b.prof.Runtime && !c.exportedOnly && b.chance(0.08) {
				name = strings.ToLower(name[:1]) + name[1:]
				i.Exportable = false
			}
			m := Method{Name: name}
			// names forbidden for user parameters of this method: filled after types are known
			np, nr := b.rng.Intn(5), b.rng.Intn(4)
			takenNames := map[string]bool{}
			var forb = map[string]bool{}
			// generate types first (names need to know them)
			ps, variadic := b.genParams(np, c, false, forb, map[string]bool{})
			rs, _ := b.genParams(nr, c, true, forb, map[string]bool{})
			for _, p := range ps {
				typeNamesOf(p.Type, forb)
			}
			for _, p := range rs {
				typeNamesOf(p.Type, forb)
			}
			for _, tp := range i.TParams {
				forb[tp.Name] = true
			}
			// re-name with the complete forbidden set
			hasBlank := false
			for _, p := range append(append([]Param{}, ps...), rs...) {
				if p.Name == "_" || p.Name == "" {
					hasBlank = true
				}
			}
			if hasBlank {
				takenNames["_"] = true
			}
			rename := func(list []Param) {
				for k := range list {
					if list[k].Name == "" || list[k].Name == "_" {
						continue
					}
					list[k].Name = b.userName(takenNames, forb)
					takenNames[list[k].Name] = true
				}
			}
			rename(ps)
			rename(rs)
			m.Params, m.Results, m.Variadic = ps, rs, variadic
			i.Methods = append(i.Methods, m)
		}
		i.walkTypes(func(x *T) {
			if x.Unexported {
				i.Exportable = false
			}
		})
		t.Ifaces = append(t.Ifaces, i)
		// now and then an alias to the interface just declared
		if len(i.TParams) == 0 && b.chance(0.1) {
			a := &Iface{Name: i.Name + "Alias", IsAlias: true, AliasOf: i.Name, File: i.File, Exportable: i.Exportable,
				Methods: i.Methods, Embeds: i.Embeds}
			t.Ifaces = append(t.Ifaces, a)
		}
	}
}

// addFixed appends a fixed set of hand-picked shapes to every tree: they guarantee that shapes known to matter
// (result-less variadic ...any, method names that collapse under the export rule, scalar-only records, records
// of 2 KiB, method-less interfaces, single-result methods) are present in every corpus and runtime batch.
func (b *builder) addFixed() {
	t := b.t
	file := 0
	str, i64, in, bl, er := basic("string"), basic("int64"), basic("int"), basic("bool"), basic("error")
	anyT := basic("any")
	emptyIface := &T{Kind: KIface}
	mk := func(name string, ms ...Method) {
		t.Ifaces = append(t.Ifaces, &Iface{Name: name, File: file, Exportable: true, Methods: ms, Tags: []string{"fixed"}})
	}
	mk("FxLogger",
		Method{Name: "Printf", Params: []Param{{"format", str}, {"args", slice(emptyIface)}}, Variadic: true},
		Method{Name: "Log", Params: []Param{{"args", slice(anyT)}}, Variadic: true},
		Method{Name: "Sprintf", Params: []Param{{"format", str}, {"a", slice(anyT)}}, Results: []Param{{"", str}}, Variadic: true})
	mk("FxVariadic",
		Method{Name: "Chunks", Params: []Param{{"parts", slice(slice(basic("byte")))}}, Variadic: true},
		Method{Name: "Fields", Params: []Param{{"", slice(str)}}, Variadic: true},
		Method{Name: "Sum", Params: []Param{{"base", in}, {"more", slice(in)}}, Results: []Param{{"", in}}, Variadic: true})
	// its own interface: a generator that mangles ...[32]byte emits a file that does not parse, which would hide
	// what it does to the other variadic shapes
	mk("FxVariadicArr",
		Method{Name: "Hashes", Params: []Param{{"n", in}, {"hs", slice(&T{Kind: KArray, ArrLen: "32", Elem: basic("byte")})}}, Results: []Param{{"", er}}, Variadic: true})
	mk("FxResource",
		Method{Name: "ID", Results: []Param{{"", str}}},
		Method{Name: "Id", Results: []Param{{"", str}}},
		Method{Name: "URL", Params: []Param{{"id", str}}, Results: []Param{{"", str}, {"", er}}},
		Method{Name: "Url", Params: []Param{{"Id", str}}, Results: []Param{{"", str}, {"", er}}},
		Method{Name: "Close", Results: []Param{{"", er}}})
	mk("FxMeter",
		Method{Name: "Set", Params: []Param{{"series", i64}, {"value", i64}}},
		Method{Name: "Inc", Params: []Param{{"n", in}}},
		Method{Name: "Flag", Params: []Param{{"on", bl}}, Results: []Param{{"", bl}}})
	mk("FxPager",
		Method{Name: "WritePage", Params: []Param{{"no", basic("uint64")}, {"page", &T{Kind: KArray, ArrLen: "256", Elem: basic("uint64")}}}},
		Method{Name: "ReadPage", Params: []Param{{"no", basic("uint64")}}, Results: []Param{{"", &T{Kind: KArray, ArrLen: "256", Elem: basic("uint64")}}, {"", er}}})
	// aliases and defined types over an instantiated generic interface (not generic themselves)
	t.Ifaces = append(t.Ifaces, &Iface{Name: "FxInstAlias", File: file, Exportable: true, IsAlias: true, AliasOf: t.Locals.GenStore + "[" + t.Locals.Key + ", bool]", Tags: []string{"fixed"},
		Methods: []Method{{Name: "Load"}, {Name: "Store"}}})
	t.Ifaces = append(t.Ifaces, &Iface{Name: "FxInstDefined", File: file, Exportable: true, IsDefined: true, AliasOf: t.Locals.GenStore + "[string, *" + t.Locals.Struct + "]", Tags: []string{"fixed"},
		Methods: []Method{{Name: "Load"}, {Name: "Store"}}})
	if b.hz.LowerTypeParam {
		// lower-case type parameter names with unnamed parameters of exactly those types
		k, e := &T{Kind: KTParam, Name: "k"}, &T{Kind: KTParam, Name: "e"}
		t.Ifaces = append(t.Ifaces, &Iface{Name: "FxLowerGen", File: file, Exportable: true, Tags: []string{"fixed"},
			TParams: []TParam{{Name: "k", CKind: "any", Arg: basic("string")}, {Name: "e", CKind: "any", Arg: basic("int")}},
			Methods: []Method{
				{Name: "Get", Params: []Param{{"", k}}, Results: []Param{{"", e}, {"", bl}}},
				{Name: "Put", Params: []Param{{"", k}, {"", e}}},
				{Name: "Each", Params: []Param{{"fn", &T{Kind: KFunc, Params: []*T{k, e}, Results: []*T{bl}}}}}}})
	}
	for _, d := range t.Deps {
		if d.ExtraFiles != nil {
			t.Ifaces = append(t.Ifaces, &Iface{Name: "FxDriver", File: file, Exportable: true, Tags: []string{"fixed"},
				Embeds: []*T{pkgT(d, "Conn")}, Methods: []Method{{Name: "Name", Results: []Param{{"", str}}}}})
		}
		if d.AltAlias != "" {
			mk("FxTwoNamesA", Method{Name: "Use", Params: []Param{{"g", pkgT(d, d.Struct)}}, Results: []Param{{"", er}}})
			t.Ifaces = append(t.Ifaces, &Iface{Name: "FxTwoNamesB", File: 1, Exportable: true, Tags: []string{"fixed"},
				Methods: []Method{{Name: "Make", Results: []Param{{"", ptr(pkgT(d, d.Struct))}}}}})
			t.FixedRequests = append(t.FixedRequests, []string{"FxTwoNamesA", "FxTwoNamesB"}, []string{"FxTwoNamesB", "FxTwoNamesA"})
		}
		if d.Fixed {
			mk("FxAliasSame",
				Method{Name: "Use", Params: []Param{{"w", pkgT(d, d.Struct)}}, Results: []Param{{"", er}}},
				Method{Name: "Make", Results: []Param{{"", ptr(pkgT(d, d.Struct))}}})
		}
	}
	// embedding-only: all methods come from embedded interfaces
	t.Ifaces = append(t.Ifaces, &Iface{Name: "FxEmbedOnly", File: file, Exportable: true, Tags: []string{"fixed"},
		Embeds: []*T{local(t.Locals.Emb), local(t.Locals.StrIf)}})
	fnA := &T{Kind: KFunc, Params: []*T{in}, Results: []*T{bl}}
	fnB := &T{Kind: KFunc, Params: []*T{in, er}}
	mk("FxVisitor",
		Method{Name: "Each", Params: []Param{{"visit", fnA}, {"skipped", fnB}}, Results: []Param{{"", in}}},
		Method{Name: "Walk", Params: []Param{{"", fnA}}},
		Method{Name: "Seek", Params: []Param{{"pos", in}, {"cb", fnB}}})
	if !b.prof.Runtime {
		// an unexported method: can only be mocked inside the source package (also under -pkg <source name>)
		// unnamed parameters of a lower-case alias spelled like its target (type person = Person)
		la := &T{Kind: KLocal, Name: t.Locals.LowerAlias, Unexported: true}
		t.Ifaces = append(t.Ifaces, &Iface{Name: "FxLowerAlias", File: file, Exportable: false, Tags: []string{"fixed"},
			Methods: []Method{{Name: "RoundTrip", Params: []Param{{"", ptr(la)}}, Results: []Param{{"", er}}}, {Name: "Configure", Params: []Param{{"", la}, {"", in}}}}})
		t.Ifaces = append(t.Ifaces, &Iface{Name: "FxSealed", File: file, Exportable: false, Tags: []string{"fixed"},
			Methods: []Method{{Name: "seal"}, {Name: "Open", Results: []Param{{"", er}}}, {Name: "visitAll", Params: []Param{{"", fnA}}}}})
	}
	// interfaces promoted from well-known std interfaces (several methods each, the shapes real code mocks) and the
	// same method names/signatures declared directly
	ioD, sortD, heapD, httpD, fmtD, flagD, encD := b.std("io"), b.std("sort"), b.std("container/heap"), b.std("net/http"), b.std("fmt"), b.std("flag"), b.std("encoding")
	syncD := ioD // NoSync profile: the source imports no package named sync, FxServe then embeds io.Closer instead of sync.Locker
	lockerName := "Closer"
	if !b.prof.NoSync {
		syncD, lockerName = b.std("sync"), "Locker"
	}
	bytesT := slice(basic("byte"))
	emb := func(name string, embeds []*T, ms ...Method) {
		t.Ifaces = append(t.Ifaces, &Iface{Name: name, File: file, Exportable: true, Embeds: embeds, Methods: ms, Tags: []string{"fixed"}})
	}
	emb("FxIO", []*T{pkgT(ioD, "ReadWriter"), pkgT(ioD, "Closer"), pkgT(ioD, "ReaderAt")}, Method{Name: "Name", Results: []Param{{"", str}}})
	emb("FxSort", []*T{pkgT(sortD, "Interface")}, Method{Name: "Name", Results: []Param{{"", str}}})
	emb("FxHeap", []*T{pkgT(heapD, "Interface")})
	emb("FxErr", []*T{basic("error"), pkgT(fmtD, "Stringer")}, Method{Name: "Unwrap", Results: []Param{{"", er}}})
	emb("FxServe", []*T{pkgT(httpD, "Handler"), pkgT(syncD, lockerName)}, Method{Name: "Addr", Results: []Param{{"", str}}})
	emb("FxCodec", []*T{pkgT(flagD, "Value"), pkgT(encD, "BinaryMarshaler"), pkgT(encD, "TextUnmarshaler")})
	mk("FxDirectIO",
		Method{Name: "Read", Params: []Param{{"p", bytesT}}, Results: []Param{{"n", in}, {"err", er}}},
		Method{Name: "Write", Params: []Param{{"p", bytesT}}, Results: []Param{{"", in}, {"", er}}},
		Method{Name: "ReadFrom", Params: []Param{{"r", pkgT(ioD, "Reader")}}, Results: []Param{{"", i64}, {"", er}}},
		Method{Name: "SetTags", Params: []Param{{"tags", slice(str)}}},
		Method{Name: "Put", Params: []Param{{"", bytesT}}, Results: []Param{{"", er}}})
	// assorted method shapes: name ending in Func, non-ASCII and one-letter method names, many parameters and
	// results, underscores and digits, pointer/any/struct values, a named basic type and a chan of empty structs
	anyT2 := basic("any")
	stA := &T{Kind: KStruct, Fields: []Field{{Name: "A", Type: in}}}
	stB := &T{Kind: KStruct, Fields: []Field{{Name: "B", Type: str}}}
	misc := []Method{
		{Name: "HandleFunc", Params: []Param{{"pattern", str}, {"handler", &T{Kind: KFunc, Params: []*T{in}, Results: []*T{er}}}}},
		{Name: "A", Params: []Param{{"b", in}}},
		{Name: "Many", Params: []Param{{"a", in}, {"b", str}, {"c", bl}, {"d", basic("float64")}, {"e", slice(in)}, {"f", &T{Kind: KMap, Key: str, Elem: in}}}, Results: []Param{{"", in}, {"", str}, {"", er}}},
		{Name: "Wait", Params: []Param{{"d", pkgT(tm0(b), "Duration")}}, Results: []Param{{"", &T{Kind: KChan, Dir: 2, Elem: &T{Kind: KStruct}}}}},
		{Name: "Get_Value2", Params: []Param{{"key_1", str}}, Results: []Param{{"value_1", anyT2}}},
		{Name: "Ptr", Params: []Param{{"p", ptr(in)}}, Results: []Param{{"", ptr(str)}}},
		{Name: "Iface", Params: []Param{{"v", anyT2}}, Results: []Param{{"", anyT2}}},
		{Name: "StructVal", Params: []Param{{"s", stA}}, Results: []Param{{"", stB}}},
		{Name: "OnlyErr", Results: []Param{{"", er}}},
		{Name: "OnlyBool", Params: []Param{{"", str}}, Results: []Param{{"", bl}}},
	}
	if b.hz.NonASCIIName {
		misc = append(misc, Method{Name: "Überprüfen", Params: []Param{{"wert", str}}, Results: []Param{{"", bl}}})
	}
	mk("FxMisc", misc...)
	var wide []Method
	for k := 0; k < 25; k++ {
		m := Method{Name: fmt.Sprintf("M%02d", k), Params: []Param{{"x", in}}}
		if k%3 == 0 {
			m.Results = []Param{{"", in}}
		}
		if k%5 == 0 {
			m.Params = nil
		}
		wide = append(wide, m)
	}
	mk("FxWide", wide...)
	// only result-less methods
	mk("FxNotifier",
		Method{Name: "Notify", Params: []Param{{"topic", str}, {"payload", bytesT}}},
		Method{Name: "Flush"},
		Method{Name: "Close"})
	// a method Reset<X> in one interface and <X> in another, requested together
	mk("FxMailer",
		Method{Name: "ResetPassword", Params: []Param{{"user", str}}, Results: []Param{{"", er}}},
		Method{Name: "ResetAll"},
		Method{Name: "Send", Params: []Param{{"to", str}, {"body", str}}, Results: []Param{{"", er}}})
	mk("FxVault",
		Method{Name: "Password", Params: []Param{{"user", str}}, Results: []Param{{"", str}}},
		Method{Name: "All", Results: []Param{{"", slice(str)}}},
		Method{Name: "Store", Params: []Param{{"user", str}, {"pw", str}}})
	t.FixedRequests = append(t.FixedRequests, []string{"FxMailer", "FxVault"}, []string{"FxVault", "FxMailer"}, []string{"FxNotifier"}, []string{"FxSort", "FxIO"},
		[]string{"FxSingle", "FxEmpty"}, []string{"FxEmpty", "FxSingle"}, []string{"FxMeter", "FxMarker", "FxEmpty"}, []string{"FxEmpty", "FxMarker"})
	// parameters named like packages that only the results of the method need (matters under -stub)
	urlD := b.std("net/url")
	mk("FxResolver",
		Method{Name: "Parse", Params: []Param{{"url", str}}, Results: []Param{{"", ptr(pkgT(urlD, "URL"))}, {"", er}}},
		Method{Name: "Next", Params: []Param{{"time", i64}, {"zone", str}}, Results: []Param{{"", pkgT(b.std("time"), "Time")}, {"", bl}}},
		Method{Name: "Stat", Params: []Param{{"u", ptr(pkgT(urlD, "URL"))}}})
	// generic instances nested inside instances of the same package, the inner one bringing a new package
	if len(t.Deps) > 0 {
		d0 := t.Deps[0]
		boxOf := func(x *T) *T { return &T{Kind: KLocal, Name: t.Locals.Gen, Args: []*T{x}} }
		genOf := func(x *T) *T { return &T{Kind: KPkg, Pkg: d0, Name: d0.Gen, Args: []*T{x}} }
		mk("FxNested",
			Method{Name: "Walk", Params: []Param{{"p", boxOf(boxOf(pkgT(d0, d0.Struct)))}}},
			Method{Name: "Pairs", Results: []Param{{"", genOf(genOf(local(t.Locals.Struct)))}}},
			Method{Name: "Rewrite", Params: []Param{{"fn", &T{Kind: KFunc, Params: []*T{boxOf(str)}, Results: []*T{boxOf(pkgT(d0, d0.Num))}}}}, Results: []Param{{"", er}}})
		v := &T{Kind: KTParam, Name: "V"}
		t.Ifaces = append(t.Ifaces, &Iface{Name: "FxNestedGen", File: file, Exportable: true, Tags: []string{"fixed"},
			TParams: []TParam{{Name: "V", CKind: "any", Arg: basic("int")}},
			Methods: []Method{
				{Name: "Rewrite", Params: []Param{{"fn", &T{Kind: KFunc, Params: []*T{boxOf(v)}, Results: []*T{boxOf(pkgT(d0, d0.Struct))}}}}, Results: []Param{{"", er}}},
				{Name: "Page", Params: []Param{{"k", v}}, Results: []Param{{"", genOf(genOf(v))}}}}})
	}
	// a type parameter bounded by a constraint that mentions itself
	{
		tp := &T{Kind: KTParam, Name: "T"}
		t.Ifaces = append(t.Ifaces, &Iface{Name: "FxFBound", File: file, Exportable: true, NeedsSkipEnsure: true, Tags: []string{"fixed"},
			TParams: []TParam{{Name: "T", CKind: "fbound", Arg: local(t.Locals.Key),
				Constraint: &T{Kind: KIface, Methods: []IMethod{{Name: "Less", Params: []*T{tp}, Results: []*T{bl}}}}}},
			Methods: []Method{{Name: "Min", Params: []Param{{"a", tp}, {"b", tp}}, Results: []Param{{"", tp}}}, {Name: "Sorted", Params: []Param{{"", slice(tp)}}, Results: []Param{{"", bl}}}}})
	}
	// a parameter named like the source package itself, followed by one typed from that package
	mk("FxOwnPkg",
		Method{Name: "Attach", Params: []Param{{t.SrcName, str}, {"opts", local(t.Locals.Struct)}}},
		Method{Name: "Detach", Params: []Param{{"opts", local(t.Locals.Struct)}, {t.SrcName, str}}},
		Method{Name: "Both", Params: []Param{{"", local(t.Locals.Struct)}, {"", ptr(local(t.Locals.Struct))}}, Results: []Param{{"", local(t.Locals.Key)}}})
	if b.hz.UnsafePointer {
		up := pkgT(b.std("unsafe"), "Pointer")
		mk("FxRawMem",
			Method{Name: "Alloc", Params: []Param{{"unsafe", bl}, {"hint", up}}, Results: []Param{{"", up}}},
			Method{Name: "Free", Params: []Param{{"p", up}, {"unsafe", bl}}},
			Method{Name: "Scan", Params: []Param{{"unsafe", bl}}, Results: []Param{{"", slice(up)}}})
	}
	// unnamed parameters whose derived name is a std package that the next parameter brings in
	tm, cx := b.std("time"), b.std("context")
	mk("FxShadow",
		Method{Name: "At", Params: []Param{{"", local("Time")}, {"", pkgT(tm, "Time")}}},
		Method{Name: "Handle", Params: []Param{{"", local("Context")}, {"", pkgT(cx, "Context")}}, Results: []Param{{"", er}}},
		Method{Name: "Later", Params: []Param{{"", pkgT(tm, "Duration")}, {"", ptr(local("Time"))}}})
	if b.hz.UnionNamedTerm {
		// inline constraints whose only term is ~ over a composite type that mentions another package
		sT, mT := &T{Kind: KTParam, Name: "S"}, &T{Kind: KTParam, Name: "M"}
		durs := slice(pkgT(tm, "Duration"))
		var vals *T
		if len(t.Deps) > 0 {
			vals = &T{Kind: KMap, Key: str, Elem: pkgT(t.Deps[0], t.Deps[0].Struct)}
		} else {
			vals = &T{Kind: KMap, Key: str, Elem: pkgT(urlD, "URL")}
		}
		t.Ifaces = append(t.Ifaces, &Iface{Name: "FxTilde", File: file, Exportable: true, NeedsSkipEnsure: true, Tags: []string{"fixed"},
			TParams: []TParam{
				{Name: "S", CKind: "tildeComposite", Constraint: &T{Kind: KIface, Embeds: []*T{{Kind: KTilde, Elem: durs}}}, Arg: durs},
				{Name: "M", CKind: "tildeComposite", Constraint: &T{Kind: KIface, Embeds: []*T{{Kind: KTilde, Elem: vals}}}, Arg: vals}},
			Methods: []Method{
				{Name: "Window", Params: []Param{{"s", sT}}, Results: []Param{{"", mT}}},
				{Name: "Count", Params: []Param{{"m", mT}}, Results: []Param{{"", in}}}}})
	}
	mapT := &T{Kind: KMap, Key: str, Elem: in}
	mk("FxCatalog",
		Method{Name: "Index", Results: []Param{{"", mapT}}},
		Method{Name: "Tags", Params: []Param{{"prefix", str}}, Results: []Param{{"", local(t.Locals.Map)}, {"", er}}},
		Method{Name: "Parts", Results: []Param{{"", slice(str)}, {"", ptr(local(t.Locals.Struct))}, {"", &T{Kind: KChan, Elem: in}}, {"", &T{Kind: KFunc}}}})
	// method names that conventions attach behaviour to (Must*), and parameters that are maps of slices
	mk("FxMust",
		Method{Name: "MustLoad", Params: []Param{{"key", str}}, Results: []Param{{"", str}}},
		Method{Name: "MustClose"})
	hdr := pkgT(httpD, "Header")
	mk("FxHeaders",
		Method{Name: "Send", Params: []Param{{"path", str}, {"header", hdr}}, Results: []Param{{"", er}}},
		Method{Name: "Query", Params: []Param{{"q", pkgT(urlD, "Values")}}, Results: []Param{{"", in}, {"", er}}},
		Method{Name: "Label", Params: []Param{{"id", in}, {"labels", &T{Kind: KMap, Key: str, Elem: slice(str)}}}})
	// a parameter named like a package only the generated file imports (sync), when no package of the tree has that name
	{
		clash := t.SrcName == "sync"
		for _, d := range t.Std {
			if d.Path == "sync" {
				clash = true // imported by the source: the name is then a qualifier of the generated file from the start
			}
		}
		for _, d := range b.allDeps() {
			if d.Name == "sync" || d.SrcAlias == "sync" {
				clash = true
			}
		}
		if !clash {
			mk("FxSyncFlag",
				Method{Name: "Put", Params: []Param{{"key", str}, {"value", bytesT}, {"sync", bl}}},
				Method{Name: "Flush", Params: []Param{{"sync", bl}}, Results: []Param{{"", er}}})
		}
	}
	// a method of one interface spelled like the accessor moq generates for a method of another one
	mk("FxStats",
		Method{Name: "GetCalls", Results: []Param{{"", in}}},
		Method{Name: "Hits", Results: []Param{{"", in}}})
	mk("FxCache",
		Method{Name: "Get", Params: []Param{{"key", str}}, Results: []Param{{"", str}, {"", bl}}},
		Method{Name: "Put", Params: []Param{{"key", str}, {"v", str}}})
	// heap.Interface embeds sort.Interface: requested together, the mocks share method objects
	t.FixedRequests = append(t.FixedRequests, []string{"FxStats", "FxCache"}, []string{"FxCache", "FxStats"}, []string{"FxSort", "FxHeap"}, []string{"FxHeap", "FxSort", "FxIO"})
	mk("FxEmpty")
	mk("FxMarker")
	mk("FxSingle",
		Method{Name: "Next", Results: []Param{{"", in}}},
		Method{Name: "Len", Params: []Param{{"s", str}}, Results: []Param{{"", in}}},
		Method{Name: "Pair", Results: []Param{{"", in}, {"", er}}},
		Method{Name: "None"})
}

func (b *builder) genTParams(i *Iface) {
	names := []string{"T", "K", "V", "S", "E", "TKey", "Elem"}
	if b.hz.LowerTypeParam {
		// lower-case spellings; not names moq derives for unnamed parameters (t from a type T: open finding
		// KF-derived-name-vs-type-param) and not qualifiers the source files use
		for _, n := range []string{"elem", "tkey", "id", "tp", "k"} {
			clash := false
			for _, d := range b.allDeps() {
				if d.Name == n || d.SrcAlias == n {
					clash = true
				}
			}
			if !clash {
				names = append(names, n)
			}
		}
	}
	n := 1 + b.rng.Intn(3)
	perm := b.rng.Perm(len(names))
	l := b.t.Locals
	for k := 0; k < n; k++ {
		tp := TParam{Name: names[perm[k]], CKind: "any"}
		kinds := []string{"any", "any", "method", "union", "depunion", "depmethod", "ordered", "stdmethod", "stdnamedunion"}
		hard := []string{"comparable", "tildeSliceOf", "hybrid", "fbound"}
		if b.hz.UnionNamedTerm {
			hard = append(hard, "namedunion")
		}
		kind := b.pick(kinds)
		if b.chance(0.25) {
			kind = b.pick(hard)
		}
		switch kind {
		case "method":
			tp.Constraint = local(l.StrIf)
		case "union":
			tp.Constraint, tp.Comparable = local(l.Union), true
		case "depunion":
			if len(b.t.Deps) == 0 {
				kind = "any"
				break
			}
			d := b.t.Deps[b.rng.Intn(len(b.t.Deps))]
			tp.Constraint, tp.Comparable = pkgT(d, d.Constr), true
		case "depmethod":
			if len(b.t.Deps) == 0 {
				kind = "any"
				break
			}
			d := b.t.Deps[b.rng.Intn(len(b.t.Deps))]
			tp.Constraint = pkgT(d, d.StrIf)
		case "ordered":
			tp.Constraint, tp.Comparable = pkgT(b.std("cmp"), "Ordered"), true
		case "stdmethod":
			tp.Constraint = pkgT(b.std("fmt"), "Stringer")
		case "stdnamedunion":
			// first term is a named, non-~ type of a single-segment package: the self-check happens to be valid
			tm := b.std("time")
			tm.SrcAlias = "" // the self-check prints the first term as time.Duration whatever the import is called (KF-self-check-representative)
			tp.Constraint = &T{Kind: KIface, Embeds: []*T{{Kind: KPkg, Pkg: tm, Name: "Duration | " + "TIMEQ" + ".Month"}}}
			tp.Comparable = true
		case "comparable":
			tp.Constraint, tp.Comparable = basic("comparable"), true
			i.NeedsSkipEnsure = true
		case "tildeSliceOf":
			if k == 0 {
				kind = "any"
				break
			}
			tp.Constraint = &T{Kind: KIface, Embeds: []*T{{Kind: KBasic, Name: "~[]" + i.TParams[k-1].Name}}}
			i.NeedsSkipEnsure = true
		case "fbound":
			// a constraint that mentions the parameter it constrains
			tp.Constraint = &T{Kind: KIface, Methods: []IMethod{{Name: "Less", Params: []*T{{Kind: KTParam, Name: tp.Name}}, Results: []*T{basic("bool")}}}}
			i.NeedsSkipEnsure = true
		case "hybrid":
			tp.Constraint = &T{Kind: KIface, Embeds: []*T{basic("~int")}, Methods: []IMethod{{Name: "String", Results: []*T{basic("string")}}}}
			tp.Comparable = true
			i.NeedsSkipEnsure = true
		case "namedunion":
			tp.Constraint = &T{Kind: KIface, Embeds: []*T{{Kind: KBasic, Name: l.Key + " | ~string"}}}
			tp.Comparable = true
			i.NeedsSkipEnsure = true
		}
		tp.CKind = kind
		switch kind {
		case "any":
			tp.Arg = basic([]string{"int", "string", "float64"}[k%3])
			if b.chance(0.2) {
				tp.Arg = ptr(local(l.Struct))
			}
		case "method", "stdmethod", "hybrid", "namedunion":
			tp.Arg = local(l.Key)
		case "fbound":
			tp.Arg = local(l.Key)
		case "union", "ordered":
			tp.Arg = basic("int")
		case "stdnamedunion":
			tp.Arg = pkgT(b.std("time"), "Duration")
		case "depunion", "comparable":
			tp.Arg = basic("string")
		case "depmethod":
			tp.Arg = pkgT(tp.Constraint.Pkg, tp.Constraint.Pkg.Num)
		case "tildeSliceOf":
			tp.Arg = slice(i.TParams[k-1].Arg)
		}
		i.TParams = append(i.TParams, tp)
	}
}

// std returns (adding if needed) a std dependency of the tree.
func (b *builder) std(path string) *Dep {
	for _, d := range b.t.Std {
		if d.Path == path {
			return d
		}
	}
	d := *stdByPath(path)
	b.t.Std = append(b.t.Std, &d)
	return &d
}

// MatrixKinds lists the deterministic matrix trees.
var MatrixKinds = []string{"initialisms", "derived", "reserved", "numbered", "stale"}

// NewMatrixTree builds one of the deterministic trees that enumerate a finite sub-space completely:
//   - initialisms: every golint initialism in four casings as a user-written parameter name;
//   - derived:     an unnamed parameter of every type constructor nested two levels over every element kind;
//   - reserved:    unnamed parameters of local types whose de-capitalised name is a keyword, a basic type name, or
//     one of the names generated code declares (Mock, CallInfo, Break, String, ...);
//   - numbered:    every arrangement of {s, s1, s2, s3, _} over 1..4 string parameters (user names distinct).
func NewMatrixTree(kind string, hz Hazards) *Tree {
	seed := int64(len(kind))*7919 + int64(kind[0])
	b := &builder{rng: rand.New(rand.NewSource(seed)), prof: Profile{Name: "matrix-" + kind, NDeps: 2, MaxDepth: 1}, hz: hz}
	t := &Tree{Seed: seed, Profile: "matrix-" + kind, Files: map[string]string{}, ModPath: "example.com/matrix" + kind}
	b.t = t
	t.Files["go.mod"] = "module " + t.ModPath + "\n\ngo 1.24\n"
	t.SrcName, t.SrcDir = "mx", "mx"
	t.SrcPath = t.ModPath + "/mx"
	b.makeDeps()
	for _, d := range t.Deps {
		d.SrcAlias = "" // plain imports
	}
	b.makeLocals()
	str, er := basic("string"), basic("error")
	add := func(prefix string, methods []Method) {
		for k := 0; k*30 < len(methods); k++ {
			end := (k + 1) * 30
			if end > len(methods) {
				end = len(methods)
			}
			t.Ifaces = append(t.Ifaces, &Iface{Name: fmt.Sprintf("%s%d", prefix, k), Exportable: true, Methods: methods[k*30 : end], Tags: []string{"matrix"}})
		}
	}
	switch kind {
	case "initialisms":
		var ms []Method
		for _, in := range initialisms {
			for c, n := range []string{strings.ToLower(in), in, in[:1] + strings.ToLower(in[1:]), strings.ToLower(in[:1]) + in[1:]} {
				ms = append(ms, Method{Name: fmt.Sprintf("M%s%d", in, c), Params: []Param{{n, basic("int")}, {"other", str}}})
			}
		}
		// names that differ only by case but have distinct exported forms, and exported-style names next to the
		// package of the same spelling
		u := b.std("net/url")
		tmx := b.std("time")
		ms = append(ms,
			Method{Name: "PairA", Params: []Param{{"userId", basic("int")}, {"userID", basic("int")}}},
			Method{Name: "PairB", Params: []Param{{"db", str}, {"dB", str}}},
			Method{Name: "PairC", Params: []Param{{"URL", str}, {"base", ptr(pkgT(u, "URL"))}}},
			Method{Name: "PairD", Params: []Param{{"Time", str}, {"at", pkgT(tmx, "Time")}}},
			Method{Name: "PairE", Params: []Param{{"aB", str}, {"ab", str}}})
		add("MxInit", ms)
	case "derived":
		l := t.Locals
		d := t.Deps[0]
		elems := []*T{str, basic("int"), basic("bool"), basic("float64"), basic("error"), basic("int64"), basic("rune"), local(l.Struct), pkgT(d, d.Struct), local(l.Key), pkgT(d, d.Num)}
		ctors := []func(e *T) *T{
			func(e *T) *T { return e },
			func(e *T) *T { return ptr(e) },
			func(e *T) *T { return slice(e) },
			func(e *T) *T { return &T{Kind: KArray, ArrLen: "3", Elem: e} },
			func(e *T) *T { return &T{Kind: KMap, Key: str, Elem: e} },
			func(e *T) *T { return &T{Kind: KMap, Key: basic("int"), Elem: e} },
			func(e *T) *T { return &T{Kind: KChan, Elem: e} },
			func(e *T) *T { return &T{Kind: KChan, Dir: 2, Elem: e} },
		}
		var ms []Method
		n := 0
		for _, c1 := range ctors {
			for _, c2 := range ctors {
				for ei, e := range elems {
					if (n+ei)%3 != 0 && !(ei < 2) { // all constructors pairs for string/int, every third for the rest
						continue
					}
					ms = append(ms, Method{Name: fmt.Sprintf("D%d", len(ms)), Params: []Param{{"", c1(c2(e))}}})
				}
				n++
			}
		}
		ms = append(ms, Method{Name: "DFunc", Params: []Param{{"", &T{Kind: KFunc, Params: []*T{str}}}}},
			Method{Name: "DStruct", Params: []Param{{"", &T{Kind: KStruct, Fields: []Field{{Name: "A", Type: str}}}}}},
			Method{Name: "DIface", Params: []Param{{"", &T{Kind: KIface, Methods: []IMethod{{Name: "X"}}}}}},
			Method{Name: "DFuncs", Params: []Param{{"", slice(&T{Kind: KFunc})}}})
		add("MxDerived", ms)
	case "reserved":
		words := []string{"Mock", "CallInfo", "Break", "Default", "Func", "Interface", "Select", "Case", "Defer", "Go", "Map", "Struct", "Chan", "Else", "Goto", "Package", "Switch", "Const", "Fallthrough", "If", "Range", "Type", "Continue", "For", "Import", "Return", "Var",
			"String", "Bool", "Byte", "Rune", "Uintptr", "Int", "Int8", "Int16", "Int32", "Int64", "Uint", "Uint8", "Uint16", "Uint32", "Uint64", "Float32", "Float64", "Complex64", "Complex128",
			// universe identifiers that are neither keywords nor basic type names and that generated bodies never use:
			// these are NOT reserved, the derived name is kept (nil, panic and append are used by the bodies and left out)
			"Error", "Any", "Len", "Cap", "New", "Make", "Copy", "Close", "Delete", "Print", "Println", "Min", "Max", "Clear", "Complex", "Real", "Imag", "True", "False", "Iota", "Comparable", "Recover"}
		var decl strings.Builder
		var ms []Method
		for i, w := range words {
			fmt.Fprintf(&decl, "type %s struct{ X%d int }\n\n", w, i)
			ty := local(w)
			ms = append(ms, Method{Name: fmt.Sprintf("R%dA", i), Params: []Param{{"", ty}}},
				Method{Name: fmt.Sprintf("R%dB", i), Params: []Param{{"_", ptr(ty)}, {"_", str}}, Results: []Param{{"", ty}}})
		}
		t.ExtraDecls = decl.String()
		add("MxReserved", ms)
	case "stale", "stale-regen":
		// two packages named client, each imported bare by a different source file; a parameter named client that
		// is allocated after both were re-aliased must keep its name, one allocated in between must not
		for _, dir := range []string{"a/client", "b/client"} {
			uid := b.nextUID()
			d := &Dep{Path: t.ModPath + "/" + dir, Dir: dir, Name: "client", UID: uid, Struct: "Thing", Ifaces: []string{"Iface"}, Embed: "Emb" + uid, EmbedMethods: []string{"Em" + uid},
				Func: "Func", Gen: "Gen", Num: "Num", Constr: "Constr", StrIf: "Str", GenAlias: "List"}
			t.Deps = append(t.Deps, d)
		}
		ca, cb := t.Deps[len(t.Deps)-2], t.Deps[len(t.Deps)-1]
		t.Ifaces = append(t.Ifaces,
			&Iface{Name: "StA", File: 0, Exportable: true, Tags: []string{"matrix"}, Methods: []Method{{Name: "Use", Params: []Param{{"c", pkgT(ca, "Thing")}}}}},
			&Iface{Name: "StB", File: 1, Exportable: true, Tags: []string{"matrix"}, Methods: []Method{
				{Name: "Use2", Params: []Param{{"c", pkgT(cb, "Thing")}}},
				{Name: "Zap", Params: []Param{{"client", str}, {"id", basic("int")}}},
				{Name: "Zip", Params: []Param{{"api", str}, {"client", basic("int")}}, Results: []Param{{"", er}}}}},
			&Iface{Name: "StC", File: 0, Exportable: true, Tags: []string{"matrix"}, Methods: []Method{
				{Name: "Early", Params: []Param{{"client", str}, {"c", pkgT(ca, "Thing")}}}}})
		// a source alias that is another package's name: a.go imports .../audit/log bare, b.go imports log ".../zap"
		for _, spec := range [][3]string{{"audit/log", "log", ""}, {"zap", "zap", "log"}} {
			uid := b.nextUID()
			t.Deps = append(t.Deps, &Dep{Path: t.ModPath + "/" + spec[0], Dir: spec[0], Name: spec[1], SrcAlias: spec[2], UID: uid, Struct: "Thing", Ifaces: []string{"Iface"}, Embed: "Emb" + uid, EmbedMethods: []string{"Em" + uid},
				Func: "Func", Gen: "Gen", Num: "Num", Constr: "Constr", StrIf: "Str", GenAlias: "List"})
		}
		la, lb := t.Deps[len(t.Deps)-2], t.Deps[len(t.Deps)-1]
		t.Ifaces = append(t.Ifaces,
			&Iface{Name: "StLogA", File: 0, Exportable: true, Tags: []string{"matrix"}, Methods: []Method{{Name: "Audit", Params: []Param{{"l", pkgT(la, "Thing")}}}}},
			&Iface{Name: "StLogB", File: 1, Exportable: true, Tags: []string{"matrix"}, Methods: []Method{{Name: "Trace", Params: []Param{{"l", pkgT(lb, "Thing")}}, Results: []Param{{"", er}}}}})
		// a generic interface whose constraint comes from a/client, requested before and after the interface that
		// brings b/client (the constraint's qualifier must follow the re-aliasing)
		e := &T{Kind: KTParam, Name: "E"}
		t.Ifaces = append(t.Ifaces, &Iface{Name: "StGen", File: 0, Exportable: true, Tags: []string{"matrix"},
			TParams: []TParam{{Name: "E", CKind: "depmethod", Constraint: pkgT(ca, ca.StrIf), Arg: pkgT(ca, ca.Num)}},
			Methods: []Method{{Name: "Get", Params: []Param{{"id", basic("int")}}, Results: []Param{{"", e}}}}})
		// a variadic parameter typed from a/client, requested before the interface that brings b/client
		t.Ifaces = append(t.Ifaces, &Iface{Name: "StVar", File: 0, Exportable: true, Tags: []string{"matrix"},
			Methods: []Method{{Name: "Fan", Params: []Param{{"primary", pkgT(ca, "Thing")}, {"extra", slice(pkgT(ca, "Thing"))}}, Variadic: true}}})
		// a project-local package named sync, used without importing the std one
		{
			uid := b.nextUID()
			t.Deps = append(t.Deps, &Dep{Path: t.ModPath + "/x/sync", Dir: "x/sync", Name: "sync", UID: uid, Struct: "Thing", Ifaces: []string{"Iface"}, Embed: "Emb" + uid, EmbedMethods: []string{"Em" + uid},
				Func: "Func", Gen: "Gen", Num: "Num", Constr: "Constr", StrIf: "Str", GenAlias: "List"})
			ls := t.Deps[len(t.Deps)-1]
			t.Ifaces = append(t.Ifaces, &Iface{Name: "StSync", File: 1, Exportable: true, Tags: []string{"matrix"}, Methods: []Method{{Name: "Guard", Params: []Param{{"m", pkgT(ls, "Thing")}}, Results: []Param{{"", er}}}}})
		}
		if kind == "stale" {
			// a/client registered first (embedded Use), b/client second (embedded Use2, both re-aliased), then a parameter
			// spelled exactly like the alias the FIRST package received, typed from that package
			t.Ifaces = append(t.Ifaces,
				&Iface{Name: "StB1", File: 1, Exportable: true, Tags: []string{"matrix"}, Methods: []Method{{Name: "Use2", Params: []Param{{"c", pkgT(cb, "Thing")}}}}},
				&Iface{Name: "StZ", File: 0, Exportable: true, Tags: []string{"matrix"}, Embeds: []*T{local("StA"), local("StB1")},
					Methods: []Method{{Name: "Zuse", Params: []Param{{"aclient", pkgT(ca, "Thing")}, {"retries", basic("int")}}}}})
		}
		t.FixedRequests = [][]string{{"StA", "StB"}, {"StB", "StA"}, {"StC", "StB"}, {"StA", "StC", "StB"}, {"StLogA", "StLogB"}, {"StLogB", "StLogA"}, {"StGen", "StB"}, {"StB", "StGen"}, {"StSync"}, {"StSync", "StA"}, {"StVar", "StB"}, {"StB", "StVar"}}
		if kind == "stale" {
			t.FixedRequests = append(t.FixedRequests, []string{"StZ"}, []string{"StZ", "StA"})
		}
		if kind == "stale-regen" {
			// regeneration corpus: without the parameters named like the re-aliased package (KF-regeneration-alias-feedback)
			var keep []*Iface
			for _, i := range t.Ifaces {
				if i.Name == "StC" {
					continue
				}
				if i.Name == "StB" {
					i.Methods = i.Methods[:1]
				}
				keep = append(keep, i)
			}
			t.Ifaces = keep
			t.FixedRequests = [][]string{{"StA", "StB"}, {"StB", "StA"}, {"StLogA", "StLogB"}, {"StLogB", "StLogA"}, {"StA", "StLogB", "StB"}, {"StSync"}, {"StSync", "StA"}, {"StGen", "StB"}}
		}
	case "numbered":
		names := []string{"s", "s1", "s2", "s3", "_"}
		var ms []Method
		var rec func(cur []string)
		rec = func(cur []string) {
			if len(cur) > 0 {
				var ps []Param
				for _, n := range cur {
					ps = append(ps, Param{n, str})
				}
				ms = append(ms, Method{Name: fmt.Sprintf("N%d", len(ms)), Params: ps})
			}
			if len(cur) == 4 {
				return
			}
			for _, n := range names {
				dup := false
				for _, c := range cur {
					if c == n && n != "_" {
						dup = true
					}
				}
				if !dup {
					rec(append(append([]string{}, cur...), n))
				}
			}
		}
		rec(nil)
		add("MxNumbered", ms)
	}
	b.render()
	return t
}

func tm0(b *builder) *Dep { return b.std("time") }
