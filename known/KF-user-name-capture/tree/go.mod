module example.com/kfc

go 1.24
