module example.com/kfq

go 1.24
