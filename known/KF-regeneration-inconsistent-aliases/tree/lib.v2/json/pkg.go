package json

import (
	tr "example.com/m787/pkg/json_impl"
)

type T struct{ V int }

type Iface interface{ M2() string }

type Func func(int) string

type Gen[E any] struct{ E E }

type List[E any] = []E

type Num int

func (n Num) String() string { return "" }

type Constr interface{ ~int | ~string }

type Str interface{ String() string }

type Emb2 interface{ Em2(x tr.Item, y *T) (tr.Num, error) }
