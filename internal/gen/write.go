package gen

import (
	"os"
	"path/filepath"
)

// WriteTo materialises the tree below dir.
func (t *Tree) WriteTo(dir string) error {
	for rel, content := range t.Files {
		p := filepath.Join(dir, rel)
		if err := os.MkdirAll(filepath.Dir(p), 0o755); err != nil {
			return err
		}
		if err := os.WriteFile(p, []byte(content), 0o644); err != nil {
			return err
		}
	}
	return nil
}
