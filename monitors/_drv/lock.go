package drv

import (
	"fmt"
	"hash/fnv"
	"math/rand"
	"reflect"
	"runtime"
	"sync"
	"sync/atomic"
	"time"
	"unsafe"

	"VERIFMOD/isync"
)

// lockProg drives one mock with callbacks that use the mock themselves.
type lockProg struct {
	e    Entry
	in   *instance
	name string
	mu   sync.Mutex
	seen map[string]bool
}

func (p *lockProg) viol(meth, msg string) {
	p.mu.Lock()
	defer p.mu.Unlock()
	k := meth + "|" + msg
	if p.seen[k] {
		return
	}
	p.seen[k] = true
	violation("C06", p.e.Name, meth, "program "+p.name+": "+msg, nil)
}

// guarded runs f and converts a Deadlock panic into a violation.
func (p *lockProg) guarded(meth string, f func()) (dead bool) {
	defer func() {
		if r := recover(); r != nil {
			if d, ok := r.(isync.Deadlock); ok {
				p.viol(meth, d.Msg)
				dead = true
				return
			}
			panic(r)
		}
	}()
	f()
	return false
}

func (p *lockProg) nameLocks() {
	st := p.in.mock.Elem()
	lt := reflect.TypeOf(isync.RWMutex{})
	for i := 0; i < st.NumField(); i++ {
		if st.Field(i).Type() == lt && st.Field(i).CanAddr() {
			isync.Name((*isync.RWMutex)(unsafe.Pointer(st.Field(i).UnsafeAddr())), st.Type().Field(i).Name)
		}
	}
}

func (p *lockProg) call(m method) {
	n := m.Sig.NumIn()
	a := make([]reflect.Value, n)
	for i := 0; i < n; i++ {
		a[i] = synth(m.Sig.In(i), nextToken(), 0)
	}
	if m.Variadic {
		p.in.meth(m.Name).CallSlice(a)
	} else {
		p.in.meth(m.Name).Call(a)
	}
}

// action performs one mock operation by name.
func (p *lockProg) action(act string, m, n method) {
	switch act {
	case "callM":
		p.call(m)
	case "callN":
		p.call(n)
	case "MCalls":
		p.in.calls(m.Name).Call(nil)
	case "NCalls":
		p.in.calls(n.Name).Call(nil)
	case "resetM":
		p.in.mock.MethodByName("Reset" + m.Name + "Calls").Call(nil)
	case "resetN":
		p.in.mock.MethodByName("Reset" + n.Name + "Calls").Call(nil)
	case "resetAll":
		p.in.mock.MethodByName("ResetCalls").Call(nil)
	}
}

func (p *lockProg) checkCallbackEntry(m method) {
	count("callback_entries_lockset_checked", 1)
	if held := isync.Held(isync.GID()); len(held) > 0 {
		p.viol(m.Name, fmt.Sprintf("%sFunc runs while the mock holds %v", m.Name, held))
	}
}

func (p *lockProg) quietStub(m method) {
	p.in.field(m.Name).Set(reflect.MakeFunc(m.Sig, func([]reflect.Value) []reflect.Value {
		p.checkCallbackEntry(m)
		return zeros(m.Sig)
	}))
}

// runLock runs the re-entrancy programs, the parked-callback programs and a perturbed stress on one mock.
// real=true means the emitted code uses the real sync package: only the single-goroutine programs are run and a
// held lock shows as a Go runtime deadlock (fatal, decided by the harness).
func runLock(e Entry, rng *rand.Rand, stress int, real bool) {
	probe, _ := newInstance(e)
	if len(probe.methods) == 0 {
		return
	}
	eventsBefore := isync.Events()
	acts := []string{"callM", "callN", "MCalls", "NCalls"}
	if e.Resets {
		acts = append(acts, "resetM", "resetN", "resetAll")
	}
	// every method takes the role of M once; N is its neighbour
	for mi := range probe.methods {
		// ---- re-entrancy: the callback of M performs every subset of size <= 2 of the actions
		var sets [][]string
		for i, a := range acts {
			sets = append(sets, []string{a})
			for _, b := range acts[i:] {
				sets = append(sets, []string{a, b})
			}
		}
		for _, set := range sets {
			in, _ := newInstance(e)
			m, n := in.methods[mi], in.methods[(mi+1)%len(in.methods)]
			p := &lockProg{e: e, in: in, name: fmt.Sprintf("reenter %s{%v}", m.Name, set), seen: map[string]bool{}}
			isync.Reset()
			p.nameLocks()
			emit(map[string]any{"t": "progress", "mock": e.Name, "mode": "lock", "program": p.name})
			for _, x := range in.methods {
				p.quietStub(x)
			}
			depth := 0
			in.field(m.Name).Set(reflect.MakeFunc(m.Sig, func([]reflect.Value) []reflect.Value {
				p.checkCallbackEntry(m)
				depth++
				if depth <= 2 {
					for _, a := range set {
						p.guarded(m.Name, func() { p.action(a, m, n) })
					}
				}
				depth--
				return zeros(m.Sig)
			}))
			p.guarded(m.Name, func() { p.call(m) })
			if held := isync.Held(isync.GID()); len(held) > 0 {
				p.viol(m.Name, fmt.Sprintf("locks still held after %s returned: %v", m.Name, held))
			}
			for _, r := range isync.Reports() {
				p.viol(m.Name, r)
			}
			count("reentrancy_programs", 1)
		}
		// ---- nil function field under -stub: the early return must not leave anything locked
		if e.Stub {
			in, _ := newInstance(e)
			m, n := in.methods[mi], in.methods[(mi+1)%len(in.methods)]
			p := &lockProg{e: e, in: in, name: fmt.Sprintf("stub-nil %s", m.Name), seen: map[string]bool{}}
			isync.Reset()
			p.nameLocks()
			emit(map[string]any{"t": "progress", "mock": e.Name, "mode": "lock", "program": p.name})
			steps := []string{"callM", "MCalls", "callM", "callN"}
			if e.Resets {
				steps = append(steps, "resetM", "callM", "resetAll")
			}
			for _, a := range steps {
				if p.guarded(m.Name, func() { p.action(a, m, n) }) {
					break
				}
				if held := isync.Held(isync.GID()); len(held) > 0 {
					p.viol(m.Name, fmt.Sprintf("after %s with nil function fields the mock still holds %v", a, held))
					break
				}
			}
			for _, r := range isync.Reports() {
				p.viol(m.Name, r)
			}
			count("stub_nil_programs", 1)
		}
		if real {
			continue
		}
		// ---- writer in between: whenever the operating goroutine reaches a lock operation while it still holds a lock
		// of the mock, another goroutine calls M first and is left to queue up for the lock; a nested read
		// acquisition then sits behind that writer for ever (sync.RWMutex prefers writers)
		{
			acts2 := []string{"MCalls", "callM"}
			if e.Resets {
				acts2 = append(acts2, "resetM", "resetAll")
			}
			for _, act := range acts2 {
				in, _ := newInstance(e)
				m, n := in.methods[mi], in.methods[(mi+1)%len(in.methods)]
				p := &lockProg{e: e, in: in, name: fmt.Sprintf("writer-in-between %s during %s", m.Name, act), seen: map[string]bool{}}
				isync.Reset()
				p.nameLocks()
				emit(map[string]any{"t": "progress", "mock": e.Name, "mode": "lock", "program": p.name})
				for _, x := range in.methods {
					p.quietStub(x)
				}
				// some records first, so that per-record work happens inside the accessor
				for k := 0; k < 3; k++ {
					p.guarded(m.Name, func() { p.call(m) })
				}
				a := isync.GID()
				injected := false
				var bdone chan struct{}
				var bg atomic.Uint64
				isync.Yield = func() {
					if isync.GID() != a || injected || len(isync.Held(a)) == 0 {
						return
					}
					injected = true
					count("writers_injected_while_a_lock_was_held", 1)
					bdone = make(chan struct{})
					go func() {
						bg.Store(isync.GID())
						defer close(bdone)
						p.guarded(m.Name, func() { p.call(m) })
					}()
					for i := 0; i < 40000; i++ {
						if g := bg.Load(); g != 0 && isync.IsWaiting(g) {
							return
						}
						select {
						case <-bdone:
							return
						default:
						}
						time.Sleep(50 * time.Microsecond)
					}
				}
				p.guarded(m.Name, func() { p.action(act, m, n) })
				isync.Yield = nil
				if held := isync.Held(a); len(held) > 0 {
					p.viol(m.Name, fmt.Sprintf("locks still held after %s returned: %v", act, held))
				}
				if bdone != nil {
					// the injected call can only be stuck on a lock that was leaked (reported above); a wall-clock
					// limit decides nothing here, it only keeps the driver going
					select {
					case <-bdone:
					case <-time.After(20 * time.Second):
						count("injected_calls_abandoned", 1)
					}
				}
				for _, r := range isync.Reports() {
					p.viol(m.Name, r)
				}
				count("writer_in_between_programs", 1)
			}
		}
		// ---- parked callback: M's callback blocks until other goroutines have completed every kind of operation
		for variant := 0; variant < 2; variant++ {
			in, _ := newInstance(e)
			m, n := in.methods[mi], in.methods[(mi+1)%len(in.methods)]
			p := &lockProg{e: e, in: in, name: fmt.Sprintf("parked %s v%d", m.Name, variant), seen: map[string]bool{}}
			isync.Reset()
			p.nameLocks()
			emit(map[string]any{"t": "progress", "mock": e.Name, "mode": "lock", "program": p.name})
			for _, x := range in.methods {
				p.quietStub(x)
			}
			entered := make(chan struct{})
			var first int32
			gids := make(chan uint64, 2)
			release := make(chan struct{})
			in.field(m.Name).Set(reflect.MakeFunc(m.Sig, func([]reflect.Value) []reflect.Value {
				p.checkCallbackEntry(m)
				if atomic.CompareAndSwapInt32(&first, 0, 1) {
					close(entered)
					others := []uint64{<-gids, <-gids}
					p.guarded(m.Name, func() {
						isync.WaitFor(others...)
						<-release
					})
					isync.DoneWaiting()
				}
				return zeros(m.Sig)
			}))
			var wg sync.WaitGroup
			wg.Add(1)
			go func() { // A: parks inside MFunc
				defer wg.Done()
				p.guarded(m.Name, func() { p.call(m) })
			}()
			<-entered
			var og sync.WaitGroup
			work := [][]string{{"callM", "MCalls"}, {"callN", "NCalls"}}
			if e.Resets {
				work = [][]string{{"callM", "MCalls", "resetM"}, {"resetAll", "callN", "callM"}}
			}
			if variant == 1 {
				work[0], work[1] = work[1], work[0]
			}
			for _, w := range work {
				w := w
				og.Add(1)
				go func() {
					defer og.Done()
					gids <- isync.GID()
					for _, a := range w {
						if p.guarded(m.Name, func() { p.action(a, m, n) }) {
							p.viol(m.Name, fmt.Sprintf("%s cannot complete while another call is blocked inside %sFunc", a, m.Name))
						}
					}
				}()
			}
			done := make(chan struct{})
			go func() { og.Wait(); close(done) }()
			select {
			case <-done:
			case <-time.After(20 * time.Second):
				emit(map[string]any{"t": "inconclusive", "mock": e.Name, "why": "parked-callback program did not finish within the watchdog: " + p.name})
				buf := make([]byte, 1<<16)
				emit(map[string]any{"t": "dump", "stacks": string(buf[:runtime.Stack(buf, true)])})
			}
			close(release)
			wg.Wait()
			for _, r := range isync.Reports() {
				p.viol(m.Name, r)
			}
			count("parked_callback_programs", 1)
		}
	}
	if real {
		return
	}
	// ---- perturbed stress: goroutines call with re-entering callbacks; lockset asserted at every entry
	fingerprints := map[uint64]bool{}
	for s := 0; s < stress; s++ {
		in, _ := newInstance(e)
		p := &lockProg{e: e, in: in, name: fmt.Sprintf("stress %d", s), seen: map[string]bool{}}
		isync.Reset()
		p.nameLocks()
		seed := rng.Int63()
		var ymu sync.Mutex
		yr := rand.New(rand.NewSource(seed))
		h := fnv.New64a()
		ranks := map[uint64]int{}
		isync.Yield = func() {
			ymu.Lock()
			g := isync.GID()
			if _, ok := ranks[g]; !ok {
				ranks[g] = len(ranks)
			}
			fmt.Fprintf(h, "%d;", ranks[g])
			r := yr.Intn(6)
			ymu.Unlock()
			switch r {
			case 0:
				runtime.Gosched()
			case 1:
				time.Sleep(time.Duration(1+r) * time.Microsecond)
			}
		}
		for _, x := range in.methods {
			x := x
			var depth int32
			in.field(x.Name).Set(reflect.MakeFunc(x.Sig, func([]reflect.Value) []reflect.Value {
				p.checkCallbackEntry(x)
				if atomic.AddInt32(&depth, 1) <= 2 {
					y := in.methods[int(nextToken())%len(in.methods)]
					switch nextToken() % 4 {
					case 0:
						p.guarded(x.Name, func() { p.call(y) })
					case 1:
						p.guarded(x.Name, func() { in.calls(y.Name).Call(nil) })
					case 2:
						if e.Resets {
							p.guarded(x.Name, func() { in.mock.MethodByName("ResetCalls").Call(nil) })
						}
					}
				}
				atomic.AddInt32(&depth, -1)
				return zeros(x.Sig)
			}))
		}
		var wg sync.WaitGroup
		G := 2 + s%3
		for g := 0; g < G; g++ {
			wg.Add(1)
			go func(g int) {
				defer wg.Done()
				for k := 0; k < 6; k++ {
					x := in.methods[(g+k)%len(in.methods)]
					p.guarded(x.Name, func() { p.call(x) })
					if held := isync.Held(isync.GID()); len(held) > 0 {
						p.viol(x.Name, fmt.Sprintf("locks still held after %s returned: %v", x.Name, held))
						return
					}
				}
			}(g)
		}
		done := make(chan struct{})
		go func() { wg.Wait(); close(done) }()
		select {
		case <-done:
		case <-time.After(30 * time.Second):
			emit(map[string]any{"t": "inconclusive", "mock": e.Name, "why": "stress program did not finish within the watchdog"})
		}
		isync.Yield = nil
		for _, r := range isync.Reports() {
			p.viol("", r)
		}
		if c := isync.OrderCycle(); c != "" {
			p.viol("", "lock-order cycle: "+c)
		}
		count("nested_lock_acquisitions", int64(len(isync.OrderEdges())))
		fingerprints[h.Sum64()] = true
		count("stress_programs", 1)
	}
	count("distinct_lock_interleavings", int64(len(fingerprints)))
	count("lock_events", isync.Events()-eventsBefore)
}
