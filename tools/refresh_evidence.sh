#!/bin/bash
# Re-runs every registered quick command exactly as the harness does (VERIF_SEED=1) so that the committed
# evidence files describe a plain quick run. Prints one line per check; non-zero exit if any check alarms.
cd /verif; rc=0
for p in $(python3 -c "import json;print(' '.join(c['property_id'] for c in json.load(open('MANIFEST.json'))['checks']))"); do
  rm -f evidence/$p.json
  out=$(VERIF_SEED=1 VERIF_TIER=quick ./run.sh $p quick 2>&1); r=$?
  echo "$p rc=$r $(echo "$out" | grep -c '^VIOLATION') violations :: $(echo "$out" | tail -n 1)"
  [ $r -ne 0 ] && rc=1
done
/opt/veriftools/pyvenv/bin/python - <<'PY'
import json,jsonschema,glob
s=json.load(open('/root/.vp/EVIDENCE.schema.json'))
for f in sorted(glob.glob('/verif/evidence/*.json')):
    jsonschema.validate(json.load(open(f)),s)
print("evidence files valid:",len(glob.glob('/verif/evidence/*.json')))
jsonschema.validate(json.load(open('/verif/MANIFEST.json')),json.load(open('/root/.vp/MANIFEST.schema.json')))
print("manifest valid")
PY
exit $rc
