module example.com/kft

go 1.24
