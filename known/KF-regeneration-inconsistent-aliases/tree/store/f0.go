package store

import (
	"context"
	"example.com/m787/b/json-go"
	jsonq0 "example.com/m787/c/json"
	thing "example.com/m787/fx/thing_impl"
	jsonq1 "example.com/m787/kit-go/json_impl"
	jsonq2 "example.com/m787/lib.v2/json"
	. "example.com/m787/pkg/go-json"
	jsonq3 "example.com/m787/pkg/json_impl"
	jsonq4 "example.com/m787/third_party/a/go-json"
	jsonq5 "example.com/m787/third_party/a/json.v2"
	"math/big"
	stdtemplate "text/template"
	"time"
	"unsafe"
	_ "embed"
)

type Iface1 interface {
	Each() (_ *big.Int)
	Get(int64)
}

type Iface1Alias = Iface1

type Iface2 interface {
	Visit0(_ chan uint8, opts map[jsonq3.Item]func(jsonq3.Emb1, *stdtemplate.Template) ([256]uint64, float64)) (_ uint8, q Key)
}

type Iface5 interface {
}

type Iface7 interface {
	Json(XSRF map[*big.Int][7]string, q [Size]jsonq4.Num, src func(Dot8Config, jsonq4.Gen[thing.Str]) <-chan json.Emb3, opts chan func(error))
	Apply(src interface{Am0(jsonq1.Thing)}, name func(*json.Func) (func(jsonq4.Emb5), Dot8Func), account ...jsonq5.Request) (accounts uint, key Stringer)
}

type Repo8 interface {
	Url(account <-chan interface{jsonq1.Str; Am0(unsafe.Pointer) complex128; Am1()}, f LocalEmb, item jsonq3.Func, a jsonq2.Str)
	Count(map[Key]interface{jsonq4.Str; Am0(bool) jsonq0.Num; Am1()}, thing.Str, func()) (jsonq5.Str, int64)
	Http0(_ thing.Emb9, q ...jsonq3.Item) (data byte, p interface{json.Emb3; Am0([4]*big.Int)})
}

type Iface9 interface {
	ID(uintptr, AccountAlias) (ss [8]func(IDs))
}

type FxLogger interface {
	Printf(format string, args ...interface{})
	Log(args ...any)
	Sprintf(format string, a ...any) string
}

type FxVariadic interface {
	Fields(...string)
	Sum(base int, more ...int) int
}

type FxResource interface {
	ID() string
	Id() string
	URL(id string) (string, error)
	Url(Id string) (string, error)
	Close() error
}

type FxMeter interface {
	Set(series int64, value int64)
	Inc(n int)
	Flag(on bool) bool
}

type FxPager interface {
	WritePage(no uint64, page [256]uint64)
	ReadPage(no uint64) ([256]uint64, error)
}

type FxInstAlias = GenStore[Key, bool]

type FxInstDefined GenStore[string, *Account]

type FxLowerGen[k any, e any] interface {
	Get(k) (e, bool)
	Put(k, e)
	Each(fn func(k, e) bool)
}

type FxAliasSame interface {
	Use(w thing.Widget) error
	Make() *thing.Widget
}

type FxEmbedOnly interface {
	LocalEmb
	Stringer
}

type FxVisitor interface {
	Each(visit func(int) bool, skipped func(int, error)) int
	Walk(func(int) bool)
	Seek(pos int, cb func(int, error))
}

type FxLowerAlias interface {
	RoundTrip(*account) error
	Configure(account, int)
}

type FxSealed interface {
	seal()
	Open() error
	visitAll(func(int) bool)
}

type FxShadow interface {
	At(Time, time.Time)
	Handle(Context, context.Context) error
	Later(time.Duration, *Time)
}

type FxCatalog interface {
	Index() map[string]int
	Tags(prefix string) (Table, error)
	Parts() ([]string, *Account, chan int, func())
}

type FxEmpty interface {
}

type FxMarker interface {
}

type FxSingle interface {
	Next() int
	Len(s string) int
	Pair() (int, error)
	None()
}

