package main

import (
	"fmt"
	"os"
	"strconv"

	"verif/internal/gen"
)

func main() {
	seed, _ := strconv.ParseInt(os.Args[1], 10, 64)
	var prof gen.Profile
	for _, p := range append(gen.Profiles, gen.ProfRuntime) {
		if p.Name == os.Args[2] {
			prof = p
		}
	}
	t := gen.NewTree(seed, prof, gen.Hazards{})
	if err := t.WriteTo(os.Args[3]); err != nil {
		panic(err)
	}
	for _, d := range t.Deps {
		fmt.Println(d.Path, d.Name, d.SrcAlias)
	}
	fmt.Println("src:", t.SrcDir)
}
