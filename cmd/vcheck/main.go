// Command vcheck hosts every check engine of /verif. Usage: vcheck <property> <quick|thorough>.
package main

import (
	"fmt"
	"os"
)

type checkFn func(prop, tier string) int

var registry = map[string]checkFn{}

// ensureEnv makes the process (and every child) use a Go toolchain that can build /repo, offline; it mirrors
// env.sh so that the binary also works when started directly.
func ensureEnv() {
	for _, c := range []string{os.Getenv("GOROOT_MOQ"), "/root/go/pkg/mod/golang.org/toolchain@v0.0.1-go1.24.0.linux-amd64", "/opt/veriftools/go1.26.8"} {
		if c == "" {
			continue
		}
		if _, err := os.Stat(c + "/bin/go"); err == nil {
			os.Setenv("PATH", c+"/bin:"+os.Getenv("PATH"))
			os.Setenv("GOROOT_MOQ", c)
			break
		}
	}
	os.Unsetenv("GOROOT")
	for k, v := range map[string]string{"GOTOOLCHAIN": "local", "GOPROXY": "off", "GOSUMDB": "off", "GOFLAGS": "", "GOTELEMETRY": "off"} {
		os.Setenv(k, v)
	}
}

func main() {
	ensureEnv()
	if len(os.Args) < 3 {
		fmt.Fprintln(os.Stderr, "usage: vcheck <property> <quick|thorough>   |   vcheck replay <dir>")
		os.Exit(3)
	}
	prop, tier := os.Args[1], os.Args[2]
	if prop == "replay" {
		os.Exit(replay(os.Args[2]))
	}
	if prop == "gentree" {
		// vcheck gentree <profile>:<seed>:<dir>  (debugging aid: writes one corpus tree)
		os.Exit(genTree(os.Args[2]))
	}
	if prop == "libdriver" {
		os.Exit(libDriver(os.Args[2]))
	}
	if tier != "quick" && tier != "thorough" {
		fmt.Fprintln(os.Stderr, "tier must be quick or thorough")
		os.Exit(3)
	}
	fn, ok := registry[prop]
	if !ok {
		fmt.Fprintf(os.Stderr, "no check registered for %s\n", prop)
		os.Exit(3)
	}
	os.Exit(fn(prop, tier))
}

func replay(dir string) int {
	b, err := os.ReadFile(dir + "/WHAT.txt")
	if err != nil {
		fmt.Fprintln(os.Stderr, err)
		return 3
	}
	fmt.Printf("replay material in %s:\n%s", dir, b)
	if cmd, err := os.ReadFile(dir + "/REPLAY.sh"); err == nil {
		fmt.Printf("run: sh %s/REPLAY.sh\n%s", dir, cmd)
	}
	return 0
}
