package kfc

type Person struct{}

type Store interface {
	Do(string int, s string)
	Create(Person *Person, x Person) error
	Run(mock int, callInfo string)
}
