package main

import (
	"encoding/json"
	"fmt"
	"go/ast"
	"go/parser"
	"go/token"
	"go/types"
	"math/rand"
	"os"
	"path/filepath"
	"sort"
	"strings"

	"verif/internal/evid"
	"verif/internal/gen"
	"verif/internal/ostatic"
	"verif/internal/runner"
)

func init() {
	for _, p := range []string{"C01", "C02", "C09", "C10", "C11", "C12", "C13", "C20"} {
		registry[p] = runStatic
	}
}

// staticPlan says how the corpus of a static property is weighted.
type staticPlan struct {
	profiles   []gen.Profile
	quickTrees int
	thorTrees  int
	opts       gen.CaseOpts
	rule       string
	nontrivial func(c *gen.Case, f ostatic.Facts) bool
}

func planFor(prop string) staticPlan {
	o := gen.DefaultCaseOpts
	p := staticPlan{profiles: gen.Profiles, quickTrees: 12, thorTrees: 240, opts: o,
		nontrivial: func(c *gen.Case, f ostatic.Facts) bool { return f.Methods > 0 }}
	base := "cases = seeded scratch modules (dependency packages with colliding names/paths, multi-file source package, random interfaces over the full type grammar) x sampled flag/destination/formatter vectors, each run through the real moq binary built from /repo and type-checked in its destination; distinct = distinct (name-free interface shape, configuration) pairs; non-trivial = "
	switch prop {
	case "C01":
		crlf := gen.ProfGeneral
		crlf.Name, crlf.CRLF = "general-crlf", true
		p.profiles = []gen.Profile{gen.ProfGeneral, gen.ProfImports, gen.ProfNaming, gen.ProfGeneric, crlf}
		p.rule = base + "at least one method"
	case "C02":
		o.ForceSkip = 0.5
		p.opts = o
		p.rule = base + "at least one method (half of the cases with -skip-ensure)"
	case "C09":
		// generic interfaces whose constraints come from packages with clashing names, requested together with
		// other interfaces (state shared between the mocks of one run)
		clash := gen.ProfGeneric
		clash.SameNames, clash.NDeps = 0.8, 7
		o.Multi = 4
		p.opts = o
		p.profiles = []gen.Profile{gen.ProfGeneric, clash, gen.ProfGeneral, clash}
		p.nontrivial = func(c *gen.Case, f ostatic.Facts) bool { return f.Generic > 0 && f.InstOK > 0 }
		p.rule = base + "a generic interface for which at least one concrete instantiation was accepted and compared"
	case "C10":
		o.OtherDest, o.ForceSkip = 0.6, 0.5
		p.opts = o
		// source packages named like std packages the output imports as well (sync is always imported)
		syncSrc, httpSrc := gen.ProfGeneral, gen.ProfImports
		syncSrc.SrcName, httpSrc.SrcName = "sync", "http"
		clash := gen.ProfImports
		clash.SrcClash = true
		p.profiles = []gen.Profile{gen.ProfGeneral, syncSrc, clash, gen.ProfGeneric, httpSrc, gen.ProfNaming}
		p.rule = base + "at least one method; destinations and -skip-ensure over-sampled"
	case "C11":
		syncSrc := gen.ProfImports
		syncSrc.SrcName = "sync"
		p.profiles = []gen.Profile{gen.ProfImports, syncSrc, gen.ProfImports, gen.ProfGeneral, gen.ProfNaming, gen.ProfCluster}
		p.nontrivial = func(c *gen.Case, f ostatic.Facts) bool { return f.Imports >= 3 }
		p.rule = base + "output with at least three imports"
	case "C12":
		p.profiles = []gen.Profile{gen.ProfNaming, gen.ProfNaming, gen.ProfImports, gen.ProfGeneral}
		p.nontrivial = func(c *gen.Case, f ostatic.Facts) bool { return f.Params >= 2 }
		p.rule = base + "at least two parameters in the request"
	case "C13":
		p.profiles = []gen.Profile{gen.ProfNaming, gen.ProfNaming, gen.ProfGeneral}
		p.nontrivial = func(c *gen.Case, f ostatic.Facts) bool { return f.KeptOK+f.DerivedOK > 0 }
		p.rule = base + "at least one parameter whose name was actually asserted (kept user name or type-derived name)"
	case "C20":
		o.Multi, o.PerIface = 8, 1
		p.opts = o
		p.nontrivial = func(c *gen.Case, f ostatic.Facts) bool { return len(c.Ifaces) >= 2 && f.Methods > 0 }
		p.rule = base + "a request with at least two interfaces; each mock is additionally compared with its solo generation"
	}
	return p
}

// matrixFor selects the deterministic matrix trees a property's check includes.
func matrixFor(prop string) []string {
	switch prop {
	case "C01":
		return gen.MatrixKinds
	case "C12":
		return []string{"reserved", "numbered", "derived", "initialisms", "stale"}
	case "C13":
		return []string{"initialisms", "derived", "numbered", "stale", "reserved"}
	case "C11", "C09", "C10", "C02", "C20":
		return []string{"stale"}
	}
	return nil
}

type job struct {
	c    *gen.Case
	lt   *ostatic.Tree
	dir  string
}

type loadedTree struct {
	t   *gen.Tree
	lt  *ostatic.Tree
	dir string
}

// prepTree writes and loads a generated tree. ok=false means the generator produced an invalid tree.
func prepTree(work string, t *gen.Tree, idx int) (*loadedTree, error) {
	dir := filepath.Join(work, fmt.Sprintf("t%03d", idx))
	if err := t.WriteTo(dir); err != nil {
		return nil, err
	}
	lt := ostatic.LoadTree(t.ModPath, t.Files)
	if len(lt.Errs) > 0 {
		return nil, fmt.Errorf("generated tree seed=%d profile=%s does not load: %s", t.Seed, t.Profile, strings.Join(lt.Errs, "; "))
	}
	return &loadedTree{t: t, lt: lt, dir: dir}, nil
}

func requestOf(c *gen.Case, lt *ostatic.Tree) ostatic.Request {
	r := ostatic.Request{Stub: c.Stub, SkipEnsure: c.SkipEnsure, WithResets: c.WithResets, Dest: c.Dest, PkgName: c.PkgName, Fmt: c.Fmt}
	for i, ifc := range c.Ifaces {
		r.Ifaces = append(r.Ifaces, ostatic.NamePair{Iface: ifc.Name, Mock: c.MockName(i)})
	}
	r.SrcAliases = lt.ConsistentAliases(c.Tree.SrcPath)
	r.AllAliases = lt.AllAliases(c.Tree.SrcPath)
	return r
}

func cwdOf(dir string, c *gen.Case) string {
	if c.CwdRoot {
		return dir
	}
	return filepath.Join(dir, c.Tree.SrcDir)
}

func replayFiles(c *gen.Case, res runner.Result, findings []ostatic.Finding) map[string]string {
	files := map[string]string{}
	for rel, content := range c.Tree.Files {
		files["tree/"+rel] = content
	}
	files["stdout.txt"] = string(res.Stdout)
	files["stderr.txt"] = string(res.Stderr)
	cwd := c.Tree.SrcDir
	if c.CwdRoot {
		cwd = "."
	}
	files["REPLAY.sh"] = fmt.Sprintf("# build moq from the repository, then:\ncd tree/%s && moq %s\n", cwd, shellJoin(c.Args()))
	var fs []string
	for _, f := range findings {
		fs = append(fs, f.Prop+": "+f.Msg)
	}
	files["findings.txt"] = strings.Join(fs, "\n") + "\n"
	return files
}

func shellJoin(a []string) string {
	q := make([]string, len(a))
	for i, s := range a {
		q[i] = "'" + strings.ReplaceAll(s, "'", `'\''`) + "'"
	}
	return strings.Join(q, " ")
}

func runStatic(prop, tier string) int {
	plan := planFor(prop)
	run := evid.New(prop, tier, "exploration", plan.rule)
	run.Assumptions = []string{"go/types (same toolchain as moq) defines what compiles", "the scratch trees themselves load without errors (checked per tree)"}
	work, err := runner.NewWork(prop)
	if err != nil {
		fmt.Println("harness:", err)
		return 2
	}
	defer os.RemoveAll(work)
	moq, err := runner.Build(work)
	if err != nil {
		fmt.Println(err)
		return 2
	}
	ntrees := plan.quickTrees
	if tier == "thorough" {
		ntrees = plan.thorTrees
	}
	if v := os.Getenv("VERIF_TREES"); v != "" {
		fmt.Sscan(v, &ntrees)
	}
	seed := evid.Seed()
	hz := currentHazards()
	plan.opts.SameName = hz.SamePkgName
	var jobs []job
	for i := 0; i < ntrees; i++ {
		prof := plan.profiles[i%len(plan.profiles)]
		t := gen.NewTree(seed*100003+int64(i), prof, hz)
		ld, err := prepTree(work, t, i)
		if err != nil {
			fmt.Println("INCONCLUSIVE (generator):", err)
			run.Inconc("generated tree does not load")
			continue
		}
		rng := rand.New(rand.NewSource(seed*7919 + int64(i)))
		for _, c := range gen.Cases(t, rng, plan.opts) {
			jobs = append(jobs, job{c: c, lt: ld.lt, dir: ld.dir})
		}
	}
	// deterministic matrices: finite sub-spaces enumerated completely on every run
	for mi, kind := range matrixFor(prop) {
		t := gen.NewMatrixTree(kind, hz)
		ld, err := prepTree(work, t, 1000+mi)
		if err != nil {
			fmt.Println("INCONCLUSIVE (generator):", err)
			run.Inconc("matrix tree does not load")
			continue
		}
		rng := rand.New(rand.NewSource(seed + int64(mi)))
		mo := plan.opts
		mo.PerIface, mo.Multi = 2, 0
		for _, c := range gen.Cases(t, rng, mo) {
			jobs = append(jobs, job{c: c, lt: ld.lt, dir: ld.dir})
		}
		run.Add("matrix_trees", 1)
	}
	profCount := map[string]int{}
	configs := map[string]bool{}
	var mu = make(chan struct{}, 1)
	lock := func() { mu <- struct{}{} }
	unlock := func() { <-mu }
	runner.Parallel(len(jobs), 16, func(i int) {
		j := jobs[i]
		findings, facts, res, verdict := evalCase(moq, j, prop)
		switch verdict {
		case "inconclusive":
			run.Inconc("moq rejected a corpus case: " + firstLine(string(res.Stderr)))
			fmt.Printf("INCONCLUSIVE: moq exit=%d on seed=%d %v: %s\n", res.Exit, j.c.Tree.Seed, j.c.Args(), firstLine(string(res.Stderr)))
			return
		case "timeout":
			run.Inconc("watchdog")
			return
		}
		key := ""
		if plan.nontrivial(j.c, facts) {
			key = j.c.Key()
		}
		run.Eval(key)
		lock()
		profCount[j.c.Tree.Profile]++
		configs[j.c.ConfigKey()] = true
		unlock()
		run.Add("methods_checked", facts.Methods)
		run.Add("parameters_checked", facts.Params)
		run.Add("imports_seen", facts.Imports)
		run.Add("aliased_imports_seen", facts.Aliased)
		run.Add("generic_mocks", facts.Generic)
		run.Add("concrete_instantiations_compared", facts.Instances)
		run.Add("instantiations_accepted_by_both", facts.InstOK)
		run.Add("instantiations_rejected_by_both", facts.InstRejected)
		run.Add("user_names_asserted_kept", facts.KeptOK)
		run.Add("derived_names_asserted", facts.DerivedOK)
		run.Add("names_legitimately_renamed", facts.Renamed)
		run.Add("names_asserted_after_timeline_replay", facts.StaleNameAsserted)
		if i%97 == 0 && facts.Methods > 0 {
			run.Sample(j.c.Describe())
		}
		var mine []ostatic.Finding
		for _, f := range findings {
			if f.Prop == prop {
				mine = append(mine, f)
			}
		}
		if len(mine) > 0 {
			var msgs []string
			for _, f := range mine {
				msgs = append(msgs, f.Msg)
			}
			what := fmt.Sprintf("seed=%d profile=%s argv=%v :: %s", j.c.Tree.Seed, j.c.Tree.Profile, j.c.Args(), strings.Join(dedupe(msgs), " | "))
			run.Violation(what, replayFiles(j.c, res, findings))
		}
	})
	run.Set("cases_per_profile", profCount)
	run.Set("distinct_configurations", len(configs))
	run.Set("trees", ntrees)
	runKnownStatic(run, moq, work, prop)
	return run.Finish()
}

func dedupe(s []string) []string {
	seen := map[string]bool{}
	var out []string
	for _, x := range s {
		if !seen[x] {
			seen[x] = true
			out = append(out, x)
		}
	}
	if len(out) > 6 {
		out = append(out[:6], fmt.Sprintf("(+%d more)", len(out)-6))
	}
	return out
}

func firstLine(s string) string {
	if i := strings.IndexByte(s, '\n'); i >= 0 {
		return s[:i]
	}
	return s
}

// invocation is one moq run plus what the oracle needs to know about it.
type invocation struct {
	lt      *ostatic.Tree
	cwd     string
	argv    []string
	req     ostatic.Request
	srcPath string
}

// analyseInvocation runs moq and applies the static oracles. When moq itself reports that its output is
// not formattable Go, the witness text is obtained with -fmt noop, and for generic requests the self-check
// line is identified as the culprit by re-running with -skip-ensure.
func analyseInvocation(moq *runner.Moq, inv invocation) ([]ostatic.Finding, ostatic.Facts, *ostatic.Checked, runner.Result, string) {
	res := moq.Run(inv.cwd, inv.argv, runner.Opts{})
	if res.TimedOut {
		return nil, ostatic.Facts{}, nil, res, "timeout"
	}
	if res.Exit != 0 {
		se := string(res.Stderr)
		if !strings.Contains(se, "go/format:") && !strings.Contains(se, "goimports:") {
			return nil, ostatic.Facts{}, nil, res, "inconclusive"
		}
		f := []ostatic.Finding{{Prop: "C01", Msg: "moq's own output is not formattable Go: " + firstLine(se)}}
		var facts ostatic.Facts
		var chk *ostatic.Checked
		res2 := moq.Run(inv.cwd, append([]string{"-fmt", "noop"}, inv.argv...), runner.Opts{})
		if res2.Exit == 0 {
			req := inv.req
			req.Fmt = "noop"
			chk = ostatic.CheckOutput(inv.lt, inv.srcPath, req.Dest, req.PkgName, res2.Stdout)
			var more []ostatic.Finding
			more, facts = ostatic.Analyse(chk, req)
			f = append(f, more...)
			res.Stdout = res2.Stdout
		}
		if !inv.req.SkipEnsure {
			res3 := moq.Run(inv.cwd, append([]string{"-skip-ensure"}, inv.argv...), runner.Opts{})
			if res3.Exit == 0 {
				req := inv.req
				req.SkipEnsure = true
				chk3 := ostatic.CheckOutput(inv.lt, inv.srcPath, req.Dest, req.PkgName, res3.Stdout)
				if chk3.ParseErr == nil && anyGeneric(chk3, req) {
					f = append(f, ostatic.Finding{Prop: "C09", Msg: "the emitted self-check line of a generic interface is not valid Go (the same request formats with -skip-ensure): " + firstLine(se)})
				}
			}
		}
		return f, facts, chk, res, "ok"
	}
	chk := ostatic.CheckOutput(inv.lt, inv.srcPath, inv.req.Dest, inv.req.PkgName, res.Stdout)
	findings, facts := ostatic.Analyse(chk, inv.req)
	return findings, facts, chk, res, "ok"
}

func anyGeneric(c *ostatic.Checked, req ostatic.Request) bool {
	if c.SrcPkg == nil {
		return false
	}
	for _, np := range req.Ifaces {
		if obj := c.SrcPkg.Scope().Lookup(np.Iface); obj != nil {
			switch n := obj.Type().(type) {
			case *types.Named:
				if n.TypeParams().Len() > 0 {
					return true
				}
			case *types.Alias:
				if n.TypeParams().Len() > 0 {
					return true
				}
			}
		}
	}
	return false
}

// evalCase runs moq for one case and applies the static oracles.
func evalCase(moq *runner.Moq, j job, prop string) ([]ostatic.Finding, ostatic.Facts, runner.Result, string) {
	c := j.c
	inv := invocation{lt: j.lt, cwd: cwdOf(j.dir, c), argv: c.Args(), req: requestOf(c, j.lt), srcPath: c.Tree.SrcPath}
	findings, facts, chk, res, verdict := analyseInvocation(moq, inv)
	if verdict == "ok" && prop == "C20" && len(c.Ifaces) >= 2 && chk != nil && res.Exit == 0 {
		findings = append(findings, soloCompare(moq, j, chk)...)
		findings = append(findings, shrinkingOut(moq, j)...)
	}
	return findings, facts, res, verdict
}

// soloCompare generates every interface of a joint request alone and compares the mocks as types.
func soloCompare(moq *runner.Moq, j job, joint *ostatic.Checked) []ostatic.Finding {
	var out []ostatic.Finding
	c := j.c
	if len(joint.TypeErrs) > 0 || joint.Pkg == nil {
		return nil
	}
	for i := range c.Ifaces {
		solo := *c
		solo.Ifaces = c.Ifaces[i : i+1]
		solo.MockNames = c.MockNames[i : i+1]
		res := moq.Run(cwdOf(j.dir, c), solo.Args(), runner.Opts{})
		if res.Exit != 0 {
			out = append(out, ostatic.Finding{Prop: "C20", Msg: fmt.Sprintf("%s is accepted in the joint request but rejected alone: %s", c.Ifaces[i].Name, firstLine(string(res.Stderr)))})
			continue
		}
		chk := ostatic.CheckOutput(j.lt, c.Tree.SrcPath, c.Dest, c.PkgName, res.Stdout)
		if len(chk.TypeErrs) > 0 || chk.Pkg == nil {
			continue
		}
		a := ostatic.DescribeMock(joint, c.MockName(i))
		b := ostatic.DescribeMock(chk, c.MockName(i))
		if a != b {
			out = append(out, ostatic.Finding{Prop: "C20", Msg: fmt.Sprintf("mock %s differs between joint and solo generation:\njoint: %s\nsolo:  %s", c.MockName(i), a, b)})
		}
	}
	return out
}

// shrinkingOut writes the joint request to an -out file and then only its first interface to the same file: the
// file must then contain exactly that one mock (one mock per argument of the LAST run, whatever was there before).
func shrinkingOut(moq *runner.Moq, j job) []ostatic.Finding {
	c := j.c
	if c.Tree.Seed%3 != 0 { // a third of the trees: each history costs two more runs
		return nil
	}
	out := filepath.Join(filepath.Dir(j.dir), fmt.Sprintf("shrink_%d_%p.go", c.Tree.Seed, c))
	defer os.Remove(out)
	cwd := cwdOf(j.dir, c)
	if r := moq.Run(cwd, append([]string{"-out", out}, c.Args()...), runner.Opts{}); r.Exit != 0 {
		return nil
	}
	solo := *c
	solo.Ifaces, solo.MockNames = c.Ifaces[:1], c.MockNames[:1]
	if r := moq.Run(cwd, append([]string{"-out", out}, solo.Args()...), runner.Opts{}); r.Exit != 0 {
		return nil
	}
	b, err := os.ReadFile(out)
	if err != nil {
		return nil
	}
	fset := token.NewFileSet()
	f, perr := parser.ParseFile(fset, out, b, parser.SkipObjectResolution)
	if perr != nil {
		return []ostatic.Finding{{Prop: "C20", Msg: "after generating [" + strings.Join(c.Args(), " ") + "] and then only its first interface into the same -out file, the file does not parse: " + perr.Error()}}
	}
	var types []string
	for _, d := range f.Decls {
		if gd, ok := d.(*ast.GenDecl); ok && gd.Tok == token.TYPE {
			for _, sp := range gd.Specs {
				types = append(types, sp.(*ast.TypeSpec).Name.Name)
			}
		}
	}
	if len(types) != 1 || types[0] != c.MockName(0) {
		return []ostatic.Finding{{Prop: "C20", Msg: fmt.Sprintf("after a joint run and then a run for the first interface only into the same -out file, the file declares %v, want exactly [%s]", types, c.MockName(0))}}
	}
	return nil
}

// ---- known findings ----

type knownFinding struct {
	ID         string            `json:"id"`
	Status     string            `json:"status"`
	Properties []string          `json:"properties"`
	Title      string            `json:"title"`
	Dir        string            `json:"dir"`
	Engine     string            `json:"engine"`
}

type knownCase struct {
	Cwd        string   `json:"cwd"`
	Argv       []string `json:"argv"`
	SrcPath    string   `json:"src_path"`
	ModPath    string   `json:"mod_path"`
	Dest       int      `json:"dest"`
	PkgName    string   `json:"pkg_name"`
	Ifaces     []ostatic.NamePair `json:"ifaces"`
	Stub       bool     `json:"stub"`
	SkipEnsure bool     `json:"skip_ensure"`
	WithResets bool     `json:"with_resets"`
	Fmt        string   `json:"fmt"`
}

type knownFile struct {
	Findings []knownFinding `json:"findings"`
	Fixed    []string       `json:"fixed"`
}

func loadKnown() knownFile {
	var kf knownFile
	b, err := os.ReadFile(filepath.Join(evid.Root(), "known_findings.json"))
	if err != nil {
		return kf
	}
	if err := json.Unmarshal(b, &kf); err != nil {
		fmt.Println("harness: known_findings.json:", err)
	}
	return kf
}

// readKnownCase loads the concrete input of a known finding.
func readKnownCase(k knownFinding) (knownCase, map[string]string, bool) {
	var kc knownCase
	kdir := filepath.Join(evid.Root(), k.Dir)
	b, err := os.ReadFile(filepath.Join(kdir, "case.json"))
	if err != nil || json.Unmarshal(b, &kc) != nil {
		fmt.Printf("harness: known finding %s has no readable case.json\n", k.ID)
		return kc, nil, false
	}
	return kc, readTreeDir(filepath.Join(kdir, "tree")), true
}

func readTreeDir(dir string) map[string]string {
	files := map[string]string{}
	filepath.Walk(dir, func(p string, info os.FileInfo, err error) error {
		if err != nil || info.IsDir() {
			return nil
		}
		rel, _ := filepath.Rel(dir, p)
		b, _ := os.ReadFile(p)
		files[filepath.ToSlash(rel)] = string(b)
		return nil
	})
	return files
}

// runKnownStatic re-runs the concrete input of every open finding that lists prop; prints KNOWN-FINDING when
// the input still violates prop. Any violation of prop on that exact input belongs to the finding.
func runKnownStatic(run *evid.Run, moq *runner.Moq, work, prop string) {
	kf := loadKnown()
	for _, k := range kf.Findings {
		if k.Status != "open" || (k.Engine != "" && k.Engine != "static") {
			continue
		}
		listed := false
		for _, p := range k.Properties {
			if p == prop {
				listed = true
			}
		}
		if !listed {
			continue
		}
		kdir := filepath.Join(evid.Root(), k.Dir)
		var kc knownCase
		b, err := os.ReadFile(filepath.Join(kdir, "case.json"))
		if err != nil || json.Unmarshal(b, &kc) != nil {
			fmt.Printf("harness: known finding %s has no readable case.json\n", k.ID)
			continue
		}
		files := readTreeDir(filepath.Join(kdir, "tree"))
		dst := filepath.Join(work, "known-"+k.ID)
		for rel, content := range files {
			p := filepath.Join(dst, rel)
			os.MkdirAll(filepath.Dir(p), 0o755)
			os.WriteFile(p, []byte(content), 0o644)
		}
		lt := ostatic.LoadTree(kc.ModPath, files)
		if len(lt.Errs) > 0 {
			fmt.Printf("harness: known finding %s tree does not load: %v\n", k.ID, lt.Errs)
			continue
		}
		req := ostatic.Request{Ifaces: kc.Ifaces, Stub: kc.Stub, SkipEnsure: kc.SkipEnsure, WithResets: kc.WithResets, Dest: kc.Dest, PkgName: kc.PkgName, Fmt: kc.Fmt}
		findings, _, _, _, _ := analyseInvocation(moq, invocation{lt: lt, cwd: filepath.Join(dst, kc.Cwd), argv: kc.Argv, req: req, srcPath: kc.SrcPath})
		var msgs []string
		for _, f := range findings {
			if f.Prop == prop {
				msgs = append(msgs, f.Msg)
			}
		}
		sort.Strings(msgs)
		if len(msgs) > 0 {
			run.Known(k.ID, k.Title+" :: "+strings.Join(dedupe(msgs), " | "))
		}
	}
}
