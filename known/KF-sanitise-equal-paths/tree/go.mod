module example.com/kfa

go 1.24
