# Sourced by every entry point. Resolves the Go toolchain that /repo needs (go 1.24, cached in the module
# cache) and pins an offline environment. See DESIGN.md §1.
_moq_goroot=""
for c in /root/go/pkg/mod/golang.org/toolchain@v0.0.1-go1.24.0.linux-amd64 "$(cd /repo 2>/dev/null && GOPROXY=off GOFLAGS= GOTOOLCHAIN=auto go env GOROOT 2>/dev/null)" /opt/veriftools/go1.26.8; do
  if [ -n "$c" ] && [ -x "$c/bin/go" ]; then
    v=$("$c/bin/go" env GOVERSION 2>/dev/null)
    case "$v" in go1.2[4-9]*|go1.[3-9][0-9]*) _moq_goroot="$c"; break;; esac
  fi
done
if [ -z "$_moq_goroot" ]; then echo "env.sh: no go >= 1.24 toolchain found" >&2; return 3 2>/dev/null || exit 3; fi
export GOROOT_MOQ="$_moq_goroot"
export PATH="$GOROOT_MOQ/bin:$PATH"
unset GOROOT
export GOTOOLCHAIN=local GOPROXY=off GOSUMDB=off GOFLAGS=-mod=mod GOTELEMETRY=off GONOSUMDB=* GONOSUMCHECK=1 GOFLAGS=-mod=mod
export VERIF_ROOT="${VERIF_ROOT:-/verif}"
export VERIF_REPO="${VERIF_REPO:-/repo}"
