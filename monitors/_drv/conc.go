package drv

import (
	"fmt"
	"math/rand"
	"reflect"
	"runtime"
	"sort"
	"sync"
	"sync/atomic"

	"VERIFMOD/isync"
)

// cEvent is one operation of a concurrent history, recorded at the driver boundary with a logical clock.
type cEvent struct {
	G    int     `json:"g"`
	Op   string  `json:"op"` // call, snap, reset
	M    string  `json:"m"`
	Tok  int64   `json:"tok,omitempty"`
	T0   int64   `json:"t0"` // invoked
	T1   int64   `json:"t1"` // call: callback entered (the append has happened); snap/reset: returned
	Snap []int64 `json:"snap,omitempty"`
	Torn string  `json:"torn,omitempty"`
	Panic bool   `json:"panic,omitempty"` // the callback panics after the call was recorded
}

type concPanic struct{}

var clock int64

func tick() int64 { return atomic.AddInt64(&clock, 1) }

type concOp struct {
	kind string
	m    int
}

// runConc runs concurrent histories on one mock: fixed function fields, G goroutines mixing calls, accessor
// reads and resets on one or two hot methods.
func runConc(e Entry, rng *rand.Rand, histories, ops int) {
	atomic.StoreInt32(&concurrentMode, 1)
	defer atomic.StoreInt32(&concurrentMode, 0)
	for h := 0; h < histories; h++ {
		in, _ := newInstance(e)
		if len(in.methods) == 0 {
			return
		}
		// hot methods: prefer those whose records can carry a token
		ms := append([]method{}, in.methods...)
		rng.Shuffle(len(ms), func(i, j int) { ms[i], ms[j] = ms[j], ms[i] })
		sort.SliceStable(ms, func(i, j int) bool { return ms[i].TokParam >= 0 && ms[j].TokParam < 0 })
		hot := ms
		if len(hot) > 2 {
			hot = hot[:1+rng.Intn(2)]
		}
		G := []int{2, 4, 8, 16}[(h+rng.Intn(2))%4]
		withResets := e.Resets && h%2 == 1
		// a -stub mock is also used with its function fields left nil: those calls are recorded like any other
		nilFuncs := e.Stub && h%4 >= 2
		var cur sync.Map  // gid -> *cEvent
		var args sync.Map // token -> []reflect.Value
		for _, m := range in.methods {
			if nilFuncs {
				count("concurrent_nil_func_histories", 1)
				break
			}
			m := m
			in.field(m.Name).Set(reflect.MakeFunc(m.Sig, func(a []reflect.Value) []reflect.Value {
				if ev, ok := cur.Load(isync.GID()); ok {
					atomic.StoreInt64(&ev.(*cEvent).T1, tick())
					if ev.(*cEvent).Panic {
						panic(concPanic{})
					}
				}
				return zeros(m.Sig)
			}))
		}
		// per-goroutine programs, fixed by the seed
		progs := make([][]concOp, G)
		per := 2 * ops / G // many short histories: the total number of operations stays around 2*ops
		if per < 3 {
			per = 3
		}
		for g := range progs {
			for k := 0; k < per; k++ {
				r := rng.Intn(100)
				op := concOp{kind: "call", m: rng.Intn(len(hot))}
				switch {
				case r < 60:
				case r < 90:
					op.kind = "snap"
				case withResets && r < 96:
					op.kind = "reset"
				case withResets:
					op.kind = "resetall"
				default:
					op.kind = "snap"
				}
				progs[g] = append(progs[g], op)
			}
		}
		seeds := make([]int64, G)
		for g := range seeds {
			seeds[g] = rng.Int63()
		}
		events := make([][]*cEvent, G)
		snapOf := func(g int, m method) *cEvent {
			ev := &cEvent{G: g, Op: "snap", M: m.Name, T0: tick()}
			recs := in.calls(m.Name).Call(nil)[0]
			ev.T1 = tick()
			for i := 0; i < recs.Len(); i++ {
				rec := recs.Index(i)
				tok := int64(-1)
				if m.TokParam >= 0 && m.TokParam < rec.NumField() {
					if t, ok := tokenOf(rec.Field(m.TokParam)); ok {
						tok = t
					}
				}
				ev.Snap = append(ev.Snap, tok)
				if tok >= 0 {
					if a, ok := args.Load(tok); ok {
						if !recordMatches(rec, a.([]reflect.Value)) {
							ev.Torn = fmt.Sprintf("record %d (token %d) does not equal the arguments of the call that carries this token (torn or mixed record)", i, tok)
						}
					} else {
						ev.Torn = fmt.Sprintf("record %d carries token %d which no call used", i, tok)
					}
				}
			}
			return ev
		}
		var wg sync.WaitGroup
		start := make(chan struct{})
		for g := 0; g < G; g++ {
			wg.Add(1)
			go func(g int) {
				defer wg.Done()
				lr := rand.New(rand.NewSource(seeds[g]))
				gid := isync.GID()
				<-start
				for _, op := range progs[g] {
					m := hot[op.m]
					switch op.kind {
					case "call":
						tok := nextToken()
						n := m.Sig.NumIn()
						a := make([]reflect.Value, n)
						for i := 0; i < n; i++ {
							a[i] = synth(m.Sig.In(i), tok, 0)
						}
						args.Store(tok, a)
						ev := &cEvent{G: g, Op: "call", M: m.Name, Tok: tok, Panic: !nilFuncs && lr.Intn(16) == 0}
						cur.Store(gid, ev)
						ev.T0 = tick()
						func() {
							defer func() {
								if r := recover(); r != nil {
									if _, mine := r.(concPanic); !mine {
										panic(r)
									}
									count("concurrent_panicking_callbacks", 1)
								}
							}()
							if m.Variadic {
								in.meth(m.Name).CallSlice(a)
							} else {
								in.meth(m.Name).Call(a)
							}
						}()
						if atomic.LoadInt64(&ev.T1) == 0 {
							ev.T1 = tick() // callback did not run on this goroutine: close the interval at return
						}
						events[g] = append(events[g], ev)
					case "snap":
						events[g] = append(events[g], snapOf(g, m))
					case "reset":
						ev := &cEvent{G: g, Op: "reset", M: m.Name, T0: tick()}
						in.mock.MethodByName("Reset" + m.Name + "Calls").Call(nil)
						ev.T1 = tick()
						events[g] = append(events[g], ev)
					case "resetall":
						t0 := tick()
						in.mock.MethodByName("ResetCalls").Call(nil)
						t1 := tick()
						for _, hm := range hot {
							events[g] = append(events[g], &cEvent{G: g, Op: "reset", M: hm.Name, T0: t0, T1: t1})
						}
					}
					switch lr.Intn(4) {
					case 0:
						runtime.Gosched()
					}
				}
			}(g)
		}
		close(start)
		wg.Wait()
		count("concurrent_histories", 1)
		// quiescence: final snapshots
		var all []*cEvent
		for g := range events {
			all = append(all, events[g]...)
		}
		for _, m := range hot {
			all = append(all, snapOf(-1, m))
		}
		count("concurrent_operations", int64(len(all)))
		if e.Resets {
			// records must equal the calls since the last reset: a reset made now, with nothing in flight, leaves none
			in.mock.MethodByName("ResetCalls").Call(nil)
			for _, m := range in.methods {
				if n := in.calls(m.Name).Call(nil)[0].Len(); n != 0 {
					violation("C05", e.Name, m.Name, fmt.Sprintf("%d records of %s survive a ResetCalls() made after all calls and resets had returned", n, m.Name), nil)
				}
			}
		}
		for _, m := range hot {
			var evs []*cEvent
			for _, ev := range all {
				if ev.M == m.Name {
					evs = append(evs, ev)
				}
			}
			directChecks(e, m, evs, withResets)
			if m.TokParam >= 0 {
				emit(map[string]any{"t": "hist", "mock": e.Name, "method": m.Name, "goroutines": G, "resets": withResets, "events": evs})
			}
		}
	}
}

// directChecks are the n log n consequences of "one atomic append-only list per method" that unique tokens
// make checkable without search.
func directChecks(e Entry, m method, evs []*cEvent, withResets bool) {
	var calls, snaps []*cEvent
	var final *cEvent
	for _, ev := range evs {
		switch ev.Op {
		case "call":
			calls = append(calls, ev)
		case "snap":
			snaps = append(snaps, ev)
			if ev.G == -1 {
				final = ev
			}
		}
		if ev.Torn != "" {
			violation("C05", e.Name, m.Name, ev.Torn, nil)
		}
	}
	if final == nil {
		return
	}
	if withResets {
		// with concurrent resets only weak direct consequences hold; the linearizability check decides the rest
		seen := map[int64]int{}
		for _, t := range final.Snap {
			if t >= 0 {
				seen[t]++
				if seen[t] > 1 {
					violation("C05", e.Name, m.Name, fmt.Sprintf("token %d recorded twice", t), nil)
				}
			}
		}
		if len(final.Snap) > len(calls) {
			violation("C05", e.Name, m.Name, fmt.Sprintf("%d records after quiescence for %d calls", len(final.Snap), len(calls)), nil)
		}
		return
	}
	if len(final.Snap) != len(calls) {
		violation("C05", e.Name, m.Name, fmt.Sprintf("after quiescence %sCalls() has %d records for %d calls (no resets in this history)", m.Name, len(final.Snap), len(calls)), nil)
	}
	if m.TokParam < 0 {
		return
	}
	pos := map[int64]int{}
	for i, t := range final.Snap {
		if _, dup := pos[t]; dup {
			violation("C05", e.Name, m.Name, fmt.Sprintf("token %d recorded twice", t), nil)
		}
		pos[t] = i
	}
	lastPos := map[int]int{}
	lastTok := map[int]int64{}
	sort.Slice(calls, func(i, j int) bool { return calls[i].Tok < calls[j].Tok })
	for _, c := range calls {
		p, ok := pos[c.Tok]
		if !ok {
			violation("C05", e.Name, m.Name, fmt.Sprintf("call with token %d (goroutine %d) has no record after quiescence", c.Tok, c.G), nil)
			continue
		}
		if lp, seen := lastPos[c.G]; seen && p < lp {
			violation("C05", e.Name, m.Name, fmt.Sprintf("goroutine %d: call %d is recorded before its earlier call %d", c.G, c.Tok, lastTok[c.G]), nil)
		}
		lastPos[c.G], lastTok[c.G] = p, c.Tok
	}
	// every snapshot is a prefix of every later one
	sort.Slice(snaps, func(i, j int) bool { return snaps[i].T1 < snaps[j].T1 })
	for i := 0; i+1 < len(snaps); i++ {
		a := snaps[i]
		for j := i + 1; j < len(snaps); j++ {
			b := snaps[j]
			if b.T0 < a.T1 {
				continue // overlapping reads: either order is fine
			}
			if len(a.Snap) > len(b.Snap) {
				violation("C05", e.Name, m.Name, fmt.Sprintf("a snapshot with %d records was followed by a later snapshot with %d", len(a.Snap), len(b.Snap)), nil)
				break
			}
			for k := range a.Snap {
				if a.Snap[k] != b.Snap[k] {
					violation("C05", e.Name, m.Name, fmt.Sprintf("snapshot is not a prefix of a later one: position %d holds token %d, later %d", k, a.Snap[k], b.Snap[k]), nil)
					break
				}
			}
			break // comparing with the next non-overlapping snapshot is enough (prefix is transitive)
		}
	}
	count("direct_checks", 1)
}

// runResetRace: on a mock that already holds records, one call and one ResetCalls() are started at the same moment;
// when both have returned, a ResetCalls() made with nothing in flight must leave no record. A reset that a call can
// overtake between "lists emptied" and "bookkeeping updated" fails exactly here. On the instrumented binary the
// lock operations yield, which widens the gaps between critical sections.
func runResetRace(e Entry, rng *rand.Rand, rounds int) {
	if !e.Resets {
		return
	}
	in, _ := newInstance(e)
	if len(in.methods) == 0 {
		return
	}
	reset := in.mock.MethodByName("ResetCalls")
	if !reset.IsValid() {
		return
	}
	atomic.StoreInt32(&concurrentMode, 1)
	defer atomic.StoreInt32(&concurrentMode, 0)
	if !e.Stub {
		for _, m := range in.methods {
			m := m
			in.field(m.Name).Set(reflect.MakeFunc(m.Sig, func([]reflect.Value) []reflect.Value { return zeros(m.Sig) }))
		}
	}
	var yields int64
	isync.Yield = func() {
		if atomic.AddInt64(&yields, 1)%2 == 0 {
			runtime.Gosched()
		}
	}
	defer func() { isync.Yield = nil }()
	call := func(m method) {
		n := m.Sig.NumIn()
		a := make([]reflect.Value, n)
		tok := nextToken()
		for i := 0; i < n; i++ {
			a[i] = synth(m.Sig.In(i), tok, 0)
		}
		if m.Variadic {
			in.meth(m.Name).CallSlice(a)
		} else {
			in.meth(m.Name).Call(a)
		}
	}
	for r := 0; r < rounds; r++ {
		m := in.methods[rng.Intn(len(in.methods))]
		call(m)
		start := make(chan struct{})
		var wg sync.WaitGroup
		wg.Add(2)
		go func() { defer wg.Done(); <-start; call(m) }()
		go func() { defer wg.Done(); <-start; reset.Call(nil) }()
		close(start)
		wg.Wait()
		reset.Call(nil)
		bad := false
		for _, x := range in.methods {
			if n := in.calls(x.Name).Call(nil)[0].Len(); n != 0 {
				violation("C05", e.Name, x.Name, fmt.Sprintf("round %d: a call of %s and a ResetCalls() ran concurrently and returned; a further ResetCalls() with nothing in flight leaves %d records of %s", r, m.Name, n, x.Name), nil)
				bad = true
			}
		}
		count("reset_race_rounds", 1)
		if bad {
			break
		}
	}
}
