// Command vcheck hosts every check engine of /verif. Usage: vcheck <property> <quick|thorough>.
package main

import (
	"fmt"
	"os"
)

type checkFn func(prop, tier string) int

var registry = map[string]checkFn{}

func main() {
	if len(os.Args) < 3 {
		fmt.Fprintln(os.Stderr, "usage: vcheck <property> <quick|thorough>   |   vcheck replay <dir>")
		os.Exit(3)
	}
	prop, tier := os.Args[1], os.Args[2]
	if prop == "replay" {
		os.Exit(replay(os.Args[2]))
	}
	if tier != "quick" && tier != "thorough" {
		fmt.Fprintln(os.Stderr, "tier must be quick or thorough")
		os.Exit(3)
	}
	fn, ok := registry[prop]
	if !ok {
		fmt.Fprintf(os.Stderr, "no check registered for %s\n", prop)
		os.Exit(3)
	}
	os.Exit(fn(prop, tier))
}

func replay(dir string) int {
	b, err := os.ReadFile(dir + "/WHAT.txt")
	if err != nil {
		fmt.Fprintln(os.Stderr, err)
		return 3
	}
	fmt.Printf("replay material in %s:\n%s", dir, b)
	if cmd, err := os.ReadFile(dir + "/REPLAY.sh"); err == nil {
		fmt.Printf("run: sh %s/REPLAY.sh\n%s", dir, cmd)
	}
	return 0
}
