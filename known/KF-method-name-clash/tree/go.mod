module example.com/kfm

go 1.24
