package json

type Dot8Config struct{ V int }

type Dot8Iface interface{ M8() string }

type Dot8Func func(int) string

type Dot8Gen[E any] struct{ E E }

type Dot8List[E any] = []E

type Dot8Num int

func (n Dot8Num) String() string { return "" }

type Dot8Constr interface{ ~int | ~string }

type Dot8Str interface{ String() string }

type Emb8 interface{ Em8(x Dot8Config) (*Dot8Config, error) }
