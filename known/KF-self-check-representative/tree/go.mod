module example.com/kfi

go 1.24
