package main

import "verif/internal/gen"

// currentHazards says which defect-triggering input shapes are part of the random corpus. A shape is on
// once its defect is fixed in /repo (see known_findings.json "fixed"); open findings keep theirs off and are
// exercised through their concrete inputs under known/.
func currentHazards() gen.Hazards {
	return gen.Hazards{
		StdSingleClash: true, // fixed a4b2eb2
		UnionNamedTerm: true, // fixed cf7f533 (still only with -skip-ensure: KF-self-check-representative)
		NumberedDup:    true, // fixed 2f404a1
		NonASCIIName:   true, // fixed 3668f90
		LowerTypeParam: true, // fixed 1150cbd
		UnsafePointer:  true, // fixed 9240fc9
		SamePkgName:    true, // fixed b08f5fd
	}
}
