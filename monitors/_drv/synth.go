// Package drv drives compiled moq mocks through reflection only: it sets function fields, calls methods and
// accessors, and compares what it observes with a sequential model (C03 C04 C07 C08), records concurrent
// histories (C05) and runs re-entrancy / parked-callback programs under the instrumented sync (C06).
// It is copied into the scratch module next to the emitted mocks.
package drv

import (
	"context"
	"errors"
	"fmt"
	"reflect"
	"strings"
	"sync"
	"sync/atomic"
	"unsafe"
)

var tokenCounter int64

// concurrentMode is set while several goroutines drive a mock.
var concurrentMode int32

func nextToken() int64 { return atomic.AddInt64(&tokenCounter, 1) }

// funcTokens lets a function value made by us be identified: calling it stores its token here.
var (
	lastFuncToken int64
	ptrTokens     sync.Map // uintptr -> token
)

type tokStringer struct{ tok int64 }

func (t *tokStringer) String() string { return fmt.Sprintf("stringer-%d", t.tok) }

type tokReader struct{ tok int64 }

func (t *tokReader) Read(p []byte) (int, error)  { return 0, errors.New("eof") }
func (t *tokReader) Write(p []byte) (int, error) { return len(p), nil }
func (t *tokReader) Close() error                { return nil }

type ctxKey struct{}

var (
	errorType   = reflect.TypeOf((*error)(nil)).Elem()
	contextType = reflect.TypeOf((*context.Context)(nil)).Elem()
)

// synth builds a value of type t that carries token tok wherever the type can carry one.
func synth(t reflect.Type, tok int64, depth int) reflect.Value {
	v := reflect.New(t).Elem()
	if depth > 4 {
		return v
	}
	switch t.Kind() {
	case reflect.Bool:
		v.SetBool(tok%2 == 1)
	case reflect.Int, reflect.Int64:
		v.SetInt(tok)
	case reflect.Int8:
		v.SetInt(tok % 127)
	case reflect.Int16:
		v.SetInt(tok % 32767)
	case reflect.Int32:
		v.SetInt(tok % (1 << 30))
	case reflect.Uint, reflect.Uint64, reflect.Uintptr:
		v.SetUint(uint64(tok))
	case reflect.Uint8:
		v.SetUint(uint64(tok % 255))
	case reflect.Uint16:
		v.SetUint(uint64(tok % 65535))
	case reflect.Uint32:
		v.SetUint(uint64(tok % (1 << 31)))
	case reflect.Float32, reflect.Float64:
		v.SetFloat(float64(tok) + 0.5)
	case reflect.Complex64, reflect.Complex128:
		v.SetComplex(complex(float64(tok), 1))
	case reflect.String:
		v.SetString(fmt.Sprintf("tok-%d", tok))
	case reflect.Pointer:
		p := reflect.New(t.Elem())
		p.Elem().Set(synth(t.Elem(), tok, depth+1))
		ptrTokens.Store(p.Pointer(), tok)
		v.Set(p)
	case reflect.Slice:
		n := 1 + int(tok%3)
		s := reflect.MakeSlice(t, n, n+2)
		for i := 0; i < n; i++ {
			s.Index(i).Set(synth(t.Elem(), tok, depth+1))
		}
		v.Set(s)
	case reflect.Array:
		if t.Len() <= 16 {
			for i := 0; i < t.Len(); i++ {
				v.Index(i).Set(synth(t.Elem(), tok, depth+1))
			}
		} else {
			// large arrays: stamp every element with the token so that a torn copy is visible
			e := synth(t.Elem(), tok, depth+1)
			for i := 0; i < t.Len(); i++ {
				v.Index(i).Set(e)
			}
		}
	case reflect.Map:
		m := reflect.MakeMap(t)
		if t.Key().Comparable() {
			k := synth(t.Key(), tok, depth+1)
			func() {
				defer func() { recover() }() // unhashable dynamic key types
				m.SetMapIndex(k, synth(t.Elem(), tok, depth+1))
			}()
		}
		v.Set(m)
	case reflect.Chan:
		ct := reflect.ChanOf(reflect.BothDir, t.Elem())
		c := reflect.MakeChan(ct, 1)
		v.Set(c.Convert(t))
	case reflect.Func:
		ft := t
		v.Set(reflect.MakeFunc(ft, func(args []reflect.Value) []reflect.Value {
			atomic.StoreInt64(&lastFuncToken, tok)
			out := make([]reflect.Value, ft.NumOut())
			for i := range out {
				out[i] = reflect.Zero(ft.Out(i))
			}
			return out
		}))
	case reflect.Interface:
		switch {
		case t == errorType:
			v.Set(reflect.ValueOf(fmt.Errorf("err-%d", tok)))
		case t == contextType:
			v.Set(reflect.ValueOf(context.WithValue(context.Background(), ctxKey{}, tok)))
		case t.NumMethod() == 0:
			p := new(int64)
			*p = tok
			v.Set(reflect.ValueOf(p))
		default:
			for _, cand := range []any{&tokStringer{tok}, &tokReader{tok}} {
				if reflect.TypeOf(cand).Implements(t) {
					v.Set(reflect.ValueOf(cand))
					break
				}
			}
		}
	case reflect.Struct:
		for i := 0; i < t.NumField(); i++ {
			f := v.Field(i)
			if f.CanSet() {
				f.Set(synth(t.Field(i).Type, tok, depth+1))
			}
		}
	case reflect.UnsafePointer:
		p := new(int64)
		v.SetPointer(unsafe.Pointer(p))
	}
	return v
}

// funcID identifies a function value made by synth by calling it.
func funcID(v reflect.Value) (id int64) {
	if v.IsNil() {
		return -1
	}
	defer func() {
		if recover() != nil {
			id = -2
		}
	}()
	atomic.StoreInt64(&lastFuncToken, 0)
	t := v.Type()
	in := make([]reflect.Value, t.NumIn())
	for i := range in {
		in[i] = reflect.Zero(t.In(i))
	}
	if t.IsVariadic() {
		v.CallSlice(in)
	} else {
		v.Call(in)
	}
	return atomic.LoadInt64(&lastFuncToken)
}

// same reports whether b is "the very same value" as a: equal for value kinds, identical for reference kinds.
func same(a, b reflect.Value, depth int) bool {
	if a.IsValid() != b.IsValid() {
		return false
	}
	if !a.IsValid() {
		return true
	}
	if a.Type() != b.Type() {
		return false
	}
	if depth > 6 {
		return true
	}
	switch a.Kind() {
	case reflect.Bool:
		return a.Bool() == b.Bool()
	case reflect.Int, reflect.Int8, reflect.Int16, reflect.Int32, reflect.Int64:
		return a.Int() == b.Int()
	case reflect.Uint, reflect.Uint8, reflect.Uint16, reflect.Uint32, reflect.Uint64, reflect.Uintptr:
		return a.Uint() == b.Uint()
	case reflect.Float32, reflect.Float64:
		return a.Float() == b.Float()
	case reflect.Complex64, reflect.Complex128:
		return a.Complex() == b.Complex()
	case reflect.String:
		return a.String() == b.String()
	case reflect.Pointer, reflect.Map, reflect.Chan, reflect.UnsafePointer:
		return a.Pointer() == b.Pointer()
	case reflect.Slice:
		if a.IsNil() || b.IsNil() {
			return a.IsNil() == b.IsNil() && a.Len() == b.Len()
		}
		return a.Pointer() == b.Pointer() && a.Len() == b.Len() && a.Cap() == b.Cap()
	case reflect.Func:
		if a.IsNil() || b.IsNil() {
			return a.IsNil() == b.IsNil()
		}
		if atomic.LoadInt32(&concurrentMode) != 0 {
			return true // identifying a func means calling it, which is only meaningful sequentially
		}
		return funcID(a) == funcID(b)
	case reflect.Interface:
		if a.IsNil() || b.IsNil() {
			return a.IsNil() == b.IsNil()
		}
		return same(a.Elem(), b.Elem(), depth+1)
	case reflect.Struct:
		for i := 0; i < a.NumField(); i++ {
			if !same(a.Field(i), b.Field(i), depth+1) {
				return false
			}
		}
		return true
	case reflect.Array:
		n := a.Len()
		step := 1
		if n > 64 {
			step = 1 // compare all: torn large records are exactly what we look for
		}
		for i := 0; i < n; i += step {
			if !same(a.Index(i), b.Index(i), depth+1) {
				return false
			}
		}
		return true
	}
	return true
}

// describe renders a value briefly for reports.
func describe(v reflect.Value) string {
	if !v.IsValid() {
		return "<invalid>"
	}
	switch v.Kind() {
	case reflect.Pointer, reflect.Map, reflect.Chan, reflect.UnsafePointer:
		return fmt.Sprintf("%s@%#x", v.Type(), v.Pointer())
	case reflect.Slice:
		if v.IsNil() {
			return fmt.Sprintf("%s(nil)", v.Type())
		}
		return fmt.Sprintf("%s@%#x/len%d/cap%d", v.Type(), v.Pointer(), v.Len(), v.Cap())
	case reflect.Func:
		if v.IsNil() {
			return "func(nil)"
		}
		return fmt.Sprintf("func#%d", funcID(v))
	case reflect.Array:
		if v.Len() > 8 {
			return fmt.Sprintf("%s{%s ...}", v.Type(), describe(v.Index(0)))
		}
	}
	s := fmt.Sprintf("%v", safeIface(v))
	if len(s) > 80 {
		s = s[:80] + "…"
	}
	return strings.ReplaceAll(s, "\n", " ")
}

func safeIface(v reflect.Value) (out any) {
	defer func() {
		if recover() != nil {
			out = "<" + v.Type().String() + ">"
		}
	}()
	if v.CanInterface() {
		return v.Interface()
	}
	return "<" + v.Type().String() + ">"
}

// tokenOf extracts the token a synthesised value of a token-capable kind carries; ok=false otherwise.
func tokenOf(v reflect.Value) (int64, bool) {
	switch v.Kind() {
	case reflect.Int, reflect.Int64:
		return v.Int(), true
	case reflect.Uint, reflect.Uint64:
		return int64(v.Uint()), true
	case reflect.String:
		var n int64
		if _, err := fmt.Sscanf(v.String(), "tok-%d", &n); err == nil {
			return n, true
		}
		return 0, false
	case reflect.Pointer:
		if v.IsNil() {
			return 0, false
		}
		if t, ok := ptrTokens.Load(v.Pointer()); ok {
			return t.(int64), true
		}
	}
	return 0, false
}

func tokenCapable(t reflect.Type) bool {
	switch t.Kind() {
	case reflect.Int, reflect.Int64, reflect.Uint, reflect.Uint64, reflect.String, reflect.Pointer:
		return true
	}
	return false
}
