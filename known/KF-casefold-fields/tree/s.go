package kff

type Doer interface {
	Do(a string, A string)
	Get(id int, ID int)
}
