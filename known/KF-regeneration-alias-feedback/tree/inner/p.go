package inner

import "example.com/kfo/b/one"

type Base interface{ Tpl() one.U }
