module example.com/kff

go 1.24
