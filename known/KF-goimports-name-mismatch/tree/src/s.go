package src

import "example.com/kfs/x/types_impl"

type Doer interface{ Do(f types.Func) }
