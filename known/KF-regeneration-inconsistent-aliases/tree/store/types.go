package store

type Account struct{ Name string }

type Handler func(string) error

type IDs []int

type Table map[string]int

type Pipe chan int

type Box[T any] struct{ V T }

type Key int

func (Key) String() string { return "" }

func (k Key) Less(o Key) bool { return k < o }

type AccountAlias = Account

type account = Account

type Stringer interface{ String() string }

type Number interface{ ~int | ~float64 }

type secret struct{ v int }

const Size = 4

type LocalEmb interface{ LocalEm(p Account) error }

// local types named like std packages' types
type Time struct{ T int }

type Context struct{ C int }

type GenBase[T any] interface{ Base(x T) T }

type GenStore[K comparable, V any] interface {
	Load(k K) (V, bool)
	Store(k K, v V) error
}

