#!/bin/bash
# Entry point of every check: run.sh <property> <quick|thorough>
# Rebuilds the harness (it links pkg/moq from the repository under test) and the moq binary from the
# repository's current working tree, then runs the check. Exit 0 held / 1 violation / 2 inconclusive.
here=$(cd "$(dirname "$0")" && pwd)
cd "$here" || exit 2
export VERIF_ROOT="${VERIF_ROOT:-$here}"
. ./env.sh || exit 2
mkdir -p bin evidence replay
if ! go build -o bin/vcheck ./cmd/vcheck 2>bin/build.err; then
  echo "harness build failed (does /repo still compile?):"; cat bin/build.err; exit 2
fi
export VERIF_TIER="$2"
exec ./bin/vcheck "$1" "$2"
