// Package lin checks recorded concurrent histories of one mock method against the sequential model
// "append-only list with reset" using porcupine.
package lin

import (
	"fmt"
	"time"

	"github.com/anishathalye/porcupine"
)

// Event mirrors drv.cEvent.
type Event struct {
	G    int     `json:"g"`
	Op   string  `json:"op"`
	M    string  `json:"m"`
	Tok  int64   `json:"tok"`
	T0   int64   `json:"t0"`
	T1   int64   `json:"t1"`
	Snap []int64 `json:"snap"`
}

type input struct {
	op   string
	tok  int64
	snap []int64
}

var model = porcupine.Model{
	Init: func() interface{} { return []int64{} },
	Step: func(state, in, out interface{}) (bool, interface{}) {
		st := state.([]int64)
		i := in.(input)
		switch i.op {
		case "call":
			ns := make([]int64, len(st)+1)
			copy(ns, st)
			ns[len(st)] = i.tok
			return true, ns
		case "reset":
			return true, []int64{}
		case "snap":
			if len(st) != len(i.snap) {
				return false, st
			}
			for k := range st {
				if st[k] != i.snap[k] {
					return false, st
				}
			}
			return true, st
		}
		return false, st
	},
	Equal: func(a, b interface{}) bool {
		x, y := a.([]int64), b.([]int64)
		if len(x) != len(y) {
			return false
		}
		for k := range x {
			if x[k] != y[k] {
				return false
			}
		}
		return true
	},
	DescribeOperation: func(in, out interface{}) string {
		i := in.(input)
		switch i.op {
		case "call":
			return fmt.Sprintf("call(tok=%d)", i.tok)
		case "snap":
			return fmt.Sprintf("snap->%v", i.snap)
		}
		return i.op
	},
}

// Check returns "ok", "illegal" or "unknown" (timeout).
func Check(evs []Event, timeout time.Duration) string {
	ops := make([]porcupine.Operation, 0, len(evs))
	maxG := 0
	for _, e := range evs {
		if e.G > maxG {
			maxG = e.G
		}
	}
	for _, e := range evs {
		g := e.G
		if g < 0 {
			g = maxG + 1
		}
		snap := e.Snap
		if snap == nil {
			snap = []int64{}
		}
		ops = append(ops, porcupine.Operation{ClientId: g, Input: input{op: e.Op, tok: e.Tok, snap: snap}, Call: e.T0, Output: nil, Return: e.T1})
	}
	switch porcupine.CheckOperationsTimeout(model, ops, timeout) {
	case porcupine.Ok:
		return "ok"
	case porcupine.Illegal:
		return "illegal"
	}
	return "unknown"
}
