// Package evid writes evidence files, replay directories and the VIOLATION / KNOWN-FINDING lines.
package evid

import (
	"encoding/json"
	"fmt"
	"os"
	"path/filepath"
	"sort"
	"strconv"
	"sync"
	"time"
)

// Root of the verification tree.
func Root() string {
	if r := os.Getenv("VERIF_ROOT"); r != "" {
		return r
	}
	return "/verif"
}

// Seed returns VERIF_SEED (default 1).
func Seed() int64 {
	if s := os.Getenv("VERIF_SEED"); s != "" {
		if v, err := strconv.ParseInt(s, 10, 64); err == nil {
			return v
		}
	}
	return 1
}

// Run collects what one check observed.
type Run struct {
	mu          sync.Mutex
	Prop        string
	Tier        string
	Level       string
	Rule        string
	start       time.Time
	Evaluations int
	Inconclusive int
	distinct    map[string]bool
	Samples     []any
	Extra       map[string]any
	Assumptions []string
	violations  []string
	known       []string
	maxSamples  int
	replayN     int
	seenViol    map[string]bool
}

// New starts a run.
func New(prop, tier, level, rule string) *Run {
	return &Run{Prop: prop, Tier: tier, Level: level, Rule: rule, start: time.Now(), distinct: map[string]bool{}, Extra: map[string]any{}, maxSamples: 5}
}

// Eval counts one evaluated case; key != "" marks it distinct and non-trivial.
func (r *Run) Eval(key string) {
	r.mu.Lock()
	defer r.mu.Unlock()
	r.Evaluations++
	if key != "" {
		r.distinct[key] = true
	}
}

// Inconc counts an inconclusive case.
func (r *Run) Inconc(why string) {
	r.mu.Lock()
	defer r.mu.Unlock()
	r.Inconclusive++
	k := "inconclusive_reasons"
	m, _ := r.Extra[k].(map[string]int)
	if m == nil {
		m = map[string]int{}
		r.Extra[k] = m
	}
	m[why]++
}

// Sample records an example case (bounded).
func (r *Run) Sample(s any) {
	r.mu.Lock()
	defer r.mu.Unlock()
	if len(r.Samples) < r.maxSamples {
		r.Samples = append(r.Samples, s)
	}
}

// Add increments a named counter in the evidence.
func (r *Run) Add(name string, n int) {
	r.mu.Lock()
	defer r.mu.Unlock()
	v, _ := r.Extra[name].(int)
	r.Extra[name] = v + n
}

// Set stores a value in the evidence.
func (r *Run) Set(name string, v any) {
	r.mu.Lock()
	defer r.mu.Unlock()
	r.Extra[name] = v
}

// Violation records a violation with replay material and prints the VIOLATION line. files: name -> content.
func (r *Run) Violation(what string, files map[string]string) {
	r.mu.Lock()
	if r.seenViol == nil {
		r.seenViol = map[string]bool{}
	}
	if r.seenViol[what] {
		r.mu.Unlock()
		return
	}
	r.seenViol[what] = true
	r.replayN++
	n := r.replayN
	r.mu.Unlock()
	dir := filepath.Join(Root(), "replay", r.Prop, fmt.Sprintf("case%03d", n))
	if n <= 25 {
		os.RemoveAll(dir)
		os.MkdirAll(dir, 0o755)
		os.WriteFile(filepath.Join(dir, "WHAT.txt"), []byte(what+"\n"), 0o644)
		for name, content := range files {
			p := filepath.Join(dir, name)
			os.MkdirAll(filepath.Dir(p), 0o755)
			os.WriteFile(p, []byte(content), 0o644)
		}
	}
	r.mu.Lock()
	r.violations = append(r.violations, what)
	r.mu.Unlock()
	if n <= 25 {
		fmt.Printf("VIOLATION property=%s replay=%s :: %s\n", r.Prop, dir, oneLine(what))
	}
}

// Known prints a KNOWN-FINDING line.
func (r *Run) Known(id, what string) {
	r.mu.Lock()
	r.known = append(r.known, id)
	r.mu.Unlock()
	fmt.Printf("KNOWN-FINDING: property=%s %s %s\n", r.Prop, id, oneLine(what))
}

func oneLine(s string) string {
	out := []rune{}
	for _, c := range s {
		if c == '\n' || c == '\r' {
			c = ' '
		}
		out = append(out, c)
	}
	if len(out) > 400 {
		out = append(out[:400], '…')
	}
	return string(out)
}

// Violations returns the number of violations.
func (r *Run) Violations() int {
	r.mu.Lock()
	defer r.mu.Unlock()
	return len(r.violations)
}

// Finish writes the evidence file and returns the process exit code.
func (r *Run) Finish() int {
	r.mu.Lock()
	defer r.mu.Unlock()
	cov := map[string]any{
		"evaluations":         r.Evaluations,
		"distinct_nontrivial": len(r.distinct),
		"rule":                r.Rule,
		"samples":             r.Samples,
		"inconclusive":        r.Inconclusive,
		"known_findings_reproduced": append([]string{}, r.known...),
	}
	keys := make([]string, 0, len(r.Extra))
	for k := range r.Extra {
		keys = append(keys, k)
	}
	sort.Strings(keys)
	for _, k := range keys {
		cov[k] = r.Extra[k]
	}
	if r.Samples == nil {
		cov["samples"] = []any{}
	}
	ev := map[string]any{
		"property_id": r.Prop,
		"tier":        r.Tier,
		"seed":        Seed(),
		"level":       r.Level,
		"coverage":    cov,
		"assumptions": r.Assumptions,
		"wall_s":      time.Since(r.start).Seconds(),
		"violations":  len(r.violations),
	}
	if r.Assumptions == nil {
		ev["assumptions"] = []string{}
	}
	os.MkdirAll(filepath.Join(Root(), "evidence"), 0o755)
	b, _ := json.MarshalIndent(ev, "", " ")
	os.WriteFile(filepath.Join(Root(), "evidence", r.Prop+".json"), append(b, '\n'), 0o644)
	fmt.Printf("%s %s: evaluations=%d distinct_nontrivial=%d inconclusive=%d violations=%d known=%d wall=%.1fs\n",
		r.Prop, r.Tier, r.Evaluations, len(r.distinct), r.Inconclusive, len(r.violations), len(r.known), time.Since(r.start).Seconds())
	if len(r.violations) > 0 {
		return 1
	}
	if r.Evaluations == 0 {
		fmt.Printf("%s: observed nothing (inconclusive)\n", r.Prop)
		return 2
	}
	return 0
}
