module example.com/m787

go 1.24
