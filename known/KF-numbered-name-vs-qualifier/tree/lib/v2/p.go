package lib

type Item struct{}
