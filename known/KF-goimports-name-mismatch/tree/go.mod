module example.com/kfs

go 1.24
