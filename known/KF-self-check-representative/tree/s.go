package kfi

type Key int

type Set[T comparable] interface{ Has(x T) bool }

type Pairs[K comparable, V ~[]K] interface{ All(k K) V }

type Hybrid[T interface{ ~int; String() string }] interface{ Show(x T) string }

type NamedFirst[T interface{ Key | ~string }] interface{ Use(x T) }
