package kfm

type Counter interface {
	Foo() int
	FooCalls() int
}
