package thing

type Widget struct{ V int }

type Iface interface{ M9() string }

type Func func(int) string

type Gen[E any] struct{ E E }

type List[E any] = []E

type Num int

func (n Num) String() string { return "" }

type Constr interface{ ~int | ~string }

type Str interface{ String() string }

type Emb9 interface{ Em9(x Widget) (*Widget, error) }
