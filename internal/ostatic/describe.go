package ostatic

import (
	"fmt"
	"go/types"
	"sort"
	"strings"
)

// TypeKey renders a type with full package paths and without parameter names, so that two independently
// type-checked copies of the same type compare equal as strings.
func TypeKey(t types.Type) string {
	var b strings.Builder
	writeKey(&b, t, 0)
	return b.String()
}

func writeKey(b *strings.Builder, t types.Type, depth int) {
	if depth > 40 {
		b.WriteString("…")
		return
	}
	switch x := t.(type) {
	case nil:
		b.WriteString("<nil>")
	case *types.Basic:
		b.WriteString(x.Name())
	case *types.Named:
		writeObj(b, x.Obj())
		writeArgs(b, x.TypeArgs(), depth)
	case *types.Alias:
		writeObj(b, x.Obj())
		writeArgs(b, x.TypeArgs(), depth)
	case *types.TypeParam:
		fmt.Fprintf(b, "$%d", x.Index())
	case *types.Pointer:
		b.WriteString("*")
		writeKey(b, x.Elem(), depth+1)
	case *types.Slice:
		b.WriteString("[]")
		writeKey(b, x.Elem(), depth+1)
	case *types.Array:
		fmt.Fprintf(b, "[%d]", x.Len())
		writeKey(b, x.Elem(), depth+1)
	case *types.Map:
		b.WriteString("map[")
		writeKey(b, x.Key(), depth+1)
		b.WriteString("]")
		writeKey(b, x.Elem(), depth+1)
	case *types.Chan:
		switch x.Dir() {
		case types.SendOnly:
			b.WriteString("chan<- ")
		case types.RecvOnly:
			b.WriteString("<-chan ")
		default:
			b.WriteString("chan ")
		}
		b.WriteString("(")
		writeKey(b, x.Elem(), depth+1)
		b.WriteString(")")
	case *types.Signature:
		b.WriteString("func")
		writeSig(b, x, depth)
	case *types.Tuple:
		b.WriteString("(")
		for i := 0; i < x.Len(); i++ {
			if i > 0 {
				b.WriteString(", ")
			}
			writeKey(b, x.At(i).Type(), depth+1)
		}
		b.WriteString(")")
	case *types.Struct:
		b.WriteString("struct{")
		for i := 0; i < x.NumFields(); i++ {
			if i > 0 {
				b.WriteString("; ")
			}
			f := x.Field(i)
			if f.Embedded() {
				b.WriteString("embedded ")
			}
			b.WriteString(f.Name() + " ")
			writeKey(b, f.Type(), depth+1)
			if tag := x.Tag(i); tag != "" {
				fmt.Fprintf(b, " %q", tag)
			}
		}
		b.WriteString("}")
	case *types.Interface:
		b.WriteString("interface{")
		var parts []string
		for i := 0; i < x.NumMethods(); i++ {
			var mb strings.Builder
			mb.WriteString(x.Method(i).Name())
			writeSig(&mb, x.Method(i).Type().(*types.Signature), depth)
			parts = append(parts, mb.String())
		}
		for i := 0; i < x.NumEmbeddeds(); i++ {
			if _, isIface := x.EmbeddedType(i).Underlying().(*types.Interface); isIface {
				if u, ok := x.EmbeddedType(i).Underlying().(*types.Interface); ok && u.IsMethodSet() {
					continue
				}
			}
			var eb strings.Builder
			writeKey(&eb, x.EmbeddedType(i), depth+1)
			parts = append(parts, "~embed:"+eb.String())
		}
		sort.Strings(parts)
		b.WriteString(strings.Join(parts, "; "))
		b.WriteString("}")
	case *types.Union:
		for i := 0; i < x.Len(); i++ {
			if i > 0 {
				b.WriteString(" | ")
			}
			if x.Term(i).Tilde() {
				b.WriteString("~")
			}
			writeKey(b, x.Term(i).Type(), depth+1)
		}
	default:
		b.WriteString(t.String())
	}
}

func writeObj(b *strings.Builder, o *types.TypeName) {
	if o.Pkg() != nil {
		b.WriteString(o.Pkg().Path() + ".")
	}
	b.WriteString(o.Name())
}

func writeArgs(b *strings.Builder, l *types.TypeList, depth int) {
	if l.Len() == 0 {
		return
	}
	b.WriteString("[")
	for i := 0; i < l.Len(); i++ {
		if i > 0 {
			b.WriteString(", ")
		}
		writeKey(b, l.At(i), depth+1)
	}
	b.WriteString("]")
}

func writeSig(b *strings.Builder, s *types.Signature, depth int) {
	b.WriteString("(")
	for i := 0; i < s.Params().Len(); i++ {
		if i > 0 {
			b.WriteString(", ")
		}
		if s.Variadic() && i == s.Params().Len()-1 {
			b.WriteString("...")
		}
		writeKey(b, s.Params().At(i).Type(), depth+1)
	}
	b.WriteString(")")
	if s.Results().Len() > 0 {
		b.WriteString(" ")
		writeKey(b, s.Results(), depth+1)
	}
}

// DescribeMock renders type parameters, fields, record layouts (positional) and the method set of a mock.
func DescribeMock(c *Checked, name string) string {
	obj, _ := c.Pkg.Scope().Lookup(name).(*types.TypeName)
	if obj == nil {
		return "<missing " + name + ">"
	}
	n, _ := obj.Type().(*types.Named)
	if n == nil {
		return "<not named>"
	}
	var b strings.Builder
	for i := 0; i < n.TypeParams().Len(); i++ {
		fmt.Fprintf(&b, "[tp%d %s] ", i, TypeKey(n.TypeParams().At(i).Constraint()))
	}
	st, _ := n.Underlying().(*types.Struct)
	if st != nil {
		for i := 0; i < st.NumFields(); i++ {
			f := st.Field(i)
			if f.Name() == "calls" {
				if cs, ok := f.Type().Underlying().(*types.Struct); ok {
					b.WriteString("calls{")
					for j := 0; j < cs.NumFields(); j++ {
						b.WriteString(cs.Field(j).Name() + ":[")
						if sl, ok := cs.Field(j).Type().(*types.Slice); ok {
							if rs, ok := sl.Elem().Underlying().(*types.Struct); ok {
								for k := 0; k < rs.NumFields(); k++ {
									b.WriteString(TypeKey(rs.Field(k).Type()) + ",")
								}
							}
						}
						b.WriteString("] ")
					}
					b.WriteString("} ")
					continue
				}
			}
			fmt.Fprintf(&b, "field %s %s; ", f.Name(), TypeKey(f.Type()))
		}
	}
	ms := types.NewMethodSet(types.NewPointer(n))
	var methods []string
	for i := 0; i < ms.Len(); i++ {
		o := ms.At(i).Obj()
		sig, _ := o.Type().(*types.Signature)
		if sig == nil {
			continue
		}
		if strings.HasSuffix(o.Name(), "Calls") && sig.Params().Len() == 0 && sig.Results().Len() == 1 {
			// accessor: record layout compared positionally above
			methods = append(methods, "method "+o.Name()+"() <records>")
			continue
		}
		var sb strings.Builder
		writeSig(&sb, sig, 0)
		methods = append(methods, "method "+o.Name()+sb.String())
	}
	sort.Strings(methods)
	b.WriteString(strings.Join(methods, "; "))
	return b.String()
}
