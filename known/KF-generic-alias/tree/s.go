package kfj

type GI[T any] interface{ Get() T }

type GA[T any] = GI[T]
