#!/bin/bash
# Runs the repository's own suite (guard off - there are no hooks) and compares with the pinned baseline.
cd /repo || exit 2
. /verif/env.sh
out=$(GOFLAGS=-mod=mod go test -vet=off -count=1 -v ./... 2>&1)
git -C /repo checkout -- pkg/moq/testpackages/modules/go.mod 2>/dev/null
pass=$(echo "$out" | grep -c -- "--- PASS")
fail=$(echo "$out" | grep -- "--- FAIL" | sed 's/ (.*//' | tr -d ' ' | sort | tr '\n' ' ')
echo "pass=$pass fail=[$fail]"
[ "$pass" = "48" ] && [ "$fail" = "---FAIL:TestGoGenerateVendoredPackages " ]
