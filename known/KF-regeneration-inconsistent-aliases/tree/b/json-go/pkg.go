package json

type Record struct{ V int }

type Iface interface{ M3() string }

type Func func(int) string

type Gen[E any] struct{ E E }

type List[E any] = []E

type Num int

func (n Num) String() string { return "" }

type Constr interface{ ~int | ~string }

type Str interface{ String() string }

type Emb3 interface{ Em3(x Record) (*Record, error) }
