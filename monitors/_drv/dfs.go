package drv

import (
	"fmt"
	"math/rand"
	"reflect"
	"sync/atomic"

	"VERIFMOD/isync"
)

// dfsProgram is a tiny concurrent program: per goroutine a list of operations on one mock.
type dfsProgram struct {
	name string
	gors [][]string // ops: callM, callN, snapM, snapN, resetM, resetAll, callM+snap (callback reads MCalls), callM+callN
}

// runDFS enumerates ALL schedules (at lock-acquisition granularity) of a few tiny programs on one mock by
// stateless depth-first search with re-execution under the serialised scheduler of isync. Every execution is
// checked: lockset empty at callback entry, no deadlock, and the recorded history satisfies the direct
// consequences of "one atomic append-only list per method".
func runDFS(e Entry, rng *rand.Rand, maxExec int) {
	probe, _ := newInstance(e)
	if len(probe.methods) == 0 {
		return
	}
	atomic.StoreInt32(&concurrentMode, 1)
	defer atomic.StoreInt32(&concurrentMode, 0)
	progs := []dfsProgram{
		{"2xcall||2xsnap", [][]string{{"callM", "callM"}, {"snapM", "snapM"}}},
		{"call,call||call,snap", [][]string{{"callM", "callM"}, {"callM", "snapM"}}},
		{"call||call||snap,snap", [][]string{{"callM"}, {"callM"}, {"snapM", "snapM"}}},
		{"reentrant callbacks", [][]string{{"callM+snap"}, {"callM+callN"}, {"snapN"}}},
	}
	if e.Resets {
		progs = append(progs,
			dfsProgram{"call,resetM||call,snap", [][]string{{"callM", "resetM"}, {"callM", "snapM"}}},
			dfsProgram{"call+resetAll||call||snap", [][]string{{"callM", "resetAll"}, {"callN"}, {"snapM", "snapN"}}})
	}
	mi := rng.Intn(len(probe.methods))
	for _, pr := range progs {
		explored, exhaustive := 0, true
		var prefix []int
		for {
			if explored >= maxExec {
				exhaustive = false
				break
			}
			trace, widths := dfsExecute(e, pr, mi, prefix)
			explored++
			// backtrack: the deepest decision that has an untried alternative
			i := len(trace) - 1
			for ; i >= 0; i-- {
				if trace[i]+1 < widths[i] {
					break
				}
			}
			if i < 0 {
				break
			}
			prefix = append(append([]int{}, trace[:i]...), trace[i]+1)
		}
		count("dfs_schedules_explored", int64(explored))
		count("dfs_programs", 1)
		if exhaustive {
			count("dfs_programs_exhausted", 1)
		}
		emit(map[string]any{"t": "dfs", "mock": e.Name, "program": pr.name, "schedules": explored, "exhaustive": exhaustive})
	}
}

func dfsExecute(e Entry, pr dfsProgram, mi int, prefix []int) (trace, widths []int) {
	in, _ := newInstance(e)
	m, n := in.methods[mi], in.methods[(mi+1)%len(in.methods)]
	p := &lockProg{e: e, in: in, name: fmt.Sprintf("dfs %s schedule %v", pr.name, prefix), seen: map[string]bool{}}
	isync.Reset()
	p.nameLocks()
	clock = 0
	// callback behaviour is selected per call through a goroutine-local slot
	slots := make([]string, len(pr.gors))
	var innerCall func(r int)
	rankOf := map[uint64]int{}
	var events [][]*cEvent = make([][]*cEvent, len(pr.gors))
	curEv := make([]*cEvent, len(pr.gors))
	stub := func(x method) {
		in.field(x.Name).Set(reflect.MakeFunc(x.Sig, func([]reflect.Value) []reflect.Value {
			g := isync.GID()
			r, ok := rankOf[g]
			p.checkCallbackEntry(x)
			if ok && curEv[r] != nil && curEv[r].T1 == 0 {
				curEv[r].T1 = tick()
			}
			isync.Point()
			if ok {
				act := slots[r]
				slots[r] = ""
				switch act {
				case "snap":
					in.calls(x.Name).Call(nil)
				case "callN":
					outer := curEv[r]
					innerCall(r)
					curEv[r] = outer
				}
			}
			return zeros(x.Sig)
		}))
	}
	for _, x := range in.methods {
		stub(x)
	}
	tokArgs := map[int64][]reflect.Value{}
	snap := func(r int, x method) {
		ev := &cEvent{G: r, Op: "snap", M: x.Name, T0: tick()}
		recs := in.calls(x.Name).Call(nil)[0]
		ev.T1 = tick()
		for i := 0; i < recs.Len(); i++ {
			tok := int64(-1)
			if x.TokParam >= 0 {
				if t, ok := tokenOf(recs.Index(i).Field(x.TokParam)); ok {
					tok = t
					if a, ok := tokArgs[tok]; ok && !recordMatches(recs.Index(i), a) {
						ev.Torn = fmt.Sprintf("record %d (token %d) does not equal the arguments of its call", i, tok)
					}
				}
			}
			ev.Snap = append(ev.Snap, tok)
		}
		events[r] = append(events[r], ev)
	}
	call := func(r int, x method, inner string) {
		tok := nextToken()
		a := make([]reflect.Value, x.Sig.NumIn())
		for i := range a {
			a[i] = synth(x.Sig.In(i), tok, 0)
		}
		tokArgs[tok] = a
		ev := &cEvent{G: r, Op: "call", M: x.Name, Tok: tok, T0: tick()}
		curEv[r] = ev
		slots[r] = inner
		if x.Variadic {
			in.meth(x.Name).CallSlice(a)
		} else {
			in.meth(x.Name).Call(a)
		}
		if ev.T1 == 0 {
			ev.T1 = tick()
		}
		events[r] = append(events[r], ev)
	}
	innerCall = func(r int) { call(r, n, "") }
	fns := make([]func(), len(pr.gors))
	for r, ops := range pr.gors {
		r, ops := r, ops
		fns[r] = func() {
			rankOf[isync.GID()] = r // written only while this goroutine is the one running
			for _, op := range ops {
				dead := p.guarded(m.Name, func() {
					switch op {
					case "callM":
						call(r, m, "")
					case "callN":
						call(r, n, "")
					case "callM+snap":
						call(r, m, "snap")
					case "callM+callN":
						call(r, m, "callN")
					case "snapM":
						snap(r, m)
					case "snapN":
						snap(r, n)
					case "resetM":
						ev := &cEvent{G: r, Op: "reset", M: m.Name, T0: tick()}
						in.mock.MethodByName("Reset" + m.Name + "Calls").Call(nil)
						ev.T1 = tick()
						events[r] = append(events[r], ev)
					case "resetAll":
						t0 := tick()
						in.mock.MethodByName("ResetCalls").Call(nil)
						t1 := tick()
						for _, hm := range []method{m, n} {
							events[r] = append(events[r], &cEvent{G: r, Op: "reset", M: hm.Name, T0: t0, T1: t1})
						}
					}
				})
				if dead {
					return
				}
				if held := isync.Held(isync.GID()); len(held) > 0 {
					p.viol(m.Name, fmt.Sprintf("locks still held after %s returned: %v", op, held))
					return
				}
			}
		}
	}
	trace, widths, deadlocked := isync.SerialRun(prefix, fns...)
	for _, r := range isync.Reports() {
		p.viol(m.Name, r)
	}
	if deadlocked {
		return trace, widths
	}
	// direct checks per method (C05)
	hasReset := false
	var all []*cEvent
	for _, evs := range events {
		for _, ev := range evs {
			all = append(all, ev)
			if ev.Op == "reset" {
				hasReset = true
			}
		}
	}
	for _, x := range []method{m, n} {
		var evs []*cEvent
		for _, ev := range all {
			if ev.M == x.Name {
				evs = append(evs, ev)
			}
		}
		// final snapshot at quiescence
		fin := &cEvent{G: -1, Op: "snap", M: x.Name, T0: tick()}
		recs := in.calls(x.Name).Call(nil)[0]
		fin.T1 = tick()
		for i := 0; i < recs.Len(); i++ {
			tok := int64(-1)
			if x.TokParam >= 0 {
				if t, ok := tokenOf(recs.Index(i).Field(x.TokParam)); ok {
					tok = t
				}
			}
			fin.Snap = append(fin.Snap, tok)
		}
		evs = append(evs, fin)
		directChecks(e, x, evs, hasReset)
		if x.Name == n.Name && n.Name == m.Name {
			break
		}
	}
	return trace, widths
}
