package src

import (
	u1 "example.com/kfq/2fa/util"
	u2 "example.com/kfq/web/util"
)

type Inner interface{ In(t u1.T, u u2.U) }
