package main

import (
	"encoding/json"
	"fmt"
	"math/rand"
	"os"
	"path/filepath"
	"strings"
	"sync"
	"time"

	"verif/internal/evid"
	"verif/internal/gen"
	"verif/internal/lin"
	"verif/internal/ostatic"
	"verif/internal/rt"
	"verif/internal/runner"
)

func init() {
	for _, p := range []string{"C03", "C04", "C05", "C06", "C07", "C08"} {
		registry[p] = runRuntime
	}
}

var runtimeRules = map[string]string{
	"C03": "cases = compiled mocks (3 flag/destination configurations per interface of seeded runtime-profile trees, generics instantiated) driven through reflection only by sequential histories; every function field is a monitoring stub that checks invocation count, goroutine, argument identity (pointer/slice header/map/chan identity, per-argument unique tokens) and hands back unique results or a unique panic value which the caller must observe; distinct = distinct (interface shape, stub, resets, destination) with at least one method",
	"C04": "cases = the same sequential histories (calls, nil-func calls, accessor reads, per-method and whole-mock resets, re-entrant operations from inside callbacks, panicking callbacks) compared after every operation with a sequential list model on all methods; retained MCalls() slices are re-checked after every later operation; distinct = distinct (interface shape, configuration) with at least one method",
	"C07": "cases = nil-function-field calls at random positions of the sequential histories of every compiled mock: default mode must panic with a message naming mock type, field and Interface.Method and invoke nothing; -stub mode must not panic, return zero values and record the call; distinct = distinct (interface shape, configuration) with at least one method",
	"C08": "cases = presence/absence of Reset<M>Calls and ResetCalls on every compiled mock vs -with-resets, and sequential histories mixing calls, reads and both resets, all methods' records compared with the list model after every reset; distinct = distinct (interface shape, configuration) with at least one method",
	"C05": "cases = concurrent histories (G in {2,4,8,16} goroutines x ops on 1-2 hot methods, half with concurrent resets) on compiled mocks with fixed function fields, run on the -race build (unmodified emitted files), the plain build and the instrumented-sync build; oracles: Go race detector reports with a frame in an emitted file; n log n direct checks (count, exactly-once, per-goroutine order, prefix order, torn records) and porcupine linearizability against the append-only-list-with-reset model per method; distinct = distinct (interface shape, configuration, G, resets) histories",
	"C06": "cases = on the instrumented-sync build: every callback program {subsets of size <=2 of {call M, call N, MCalls, NCalls, ResetM, ResetN, ResetCalls}} per method with lockset==empty asserted at callback entry and after return, parked-callback programs (one call blocked inside MFunc while two goroutines run every operation kind; waits-for cycle detection, no timeouts), perturbed multi-goroutine stress with re-entering callbacks and lock-order graph; on the real-sync build the re-entrancy programs again, where the Go runtime's deadlock detector is the witness; distinct = distinct (interface shape, configuration) plus distinct lock-event interleavings",
}

type pendingHist struct {
	b      *rt.Batch
	m      rt.MockSpec
	mock   string
	method string
	g      any
	mode   string
	evs    []lin.Event
}

type rtAgg struct {
	hists     []pendingHist
	mu        sync.Mutex
	stats     map[string]int64
	lin       map[string]int
	raceKeys  map[string]string
	raceOther int
}

func runRuntime(prop, tier string) int {
	run := evid.New(prop, tier, "exploration", runtimeRules[prop])
	run.Assumptions = []string{"mocks are driven through reflection only; unexported interface methods are not driven (covered statically by C02)", "requests whose output does not type-check are left out of the batch (that is C01's verdict) and listed in the evidence"}
	if prop == "C05" {
		run.Assumptions = append(run.Assumptions, "the Go race detector's happens-before model; the driver synchronises only at operation boundaries and keeps its own state in per-goroutine buffers, atomics or sync.Map")
	}
	work, err := runner.NewWork(prop)
	if err != nil {
		return 2
	}
	defer os.RemoveAll(work)
	mq, err := runner.Build(work)
	if err != nil {
		fmt.Println(err)
		return 2
	}
	nb := 1
	if tier == "thorough" {
		nb = 6
		if prop == "C05" || prop == "C06" {
			nb = 3 // three builds per batch and schedule enumeration: keep the thorough tier around a quarter of an hour
		}
	}
	if v := os.Getenv("VERIF_BATCHES"); v != "" {
		fmt.Sscan(v, &nb)
	}
	seed := evid.Seed()
	hz := currentHazards()
	agg := &rtAgg{stats: map[string]int64{}, lin: map[string]int{}, raceKeys: map[string]string{}}
	variants := []string{"plain"}
	switch prop {
	case "C05":
		variants = []string{"plain", "race", "isync"}
	case "C06":
		variants = []string{"plain", "isync"}
	}
	for bi := 0; bi < nb; bi++ {
		t := gen.NewTree(seed*100129+int64(bi), gen.ProfRuntime, hz)
		rng := rand.New(rand.NewSource(seed*17 + int64(bi)))
		bw := filepath.Join(work, fmt.Sprintf("batch%d", bi))
		os.MkdirAll(bw, 0o755)
		b, err := rt.Build(bw, mq, t, rng, variants, 0)
		if err != nil {
			fmt.Println("INCONCLUSIVE (batch build):", err)
			run.Inconc("batch does not build: " + firstLine(err.Error()))
			os.RemoveAll(bw)
			continue
		}
		for _, s := range b.Skipped {
			fmt.Println("note: left out of the batch:", trunc(s, 300))
			run.Add("requests_left_out_not_type_checking", 1)
		}
		// the static oracles' verdicts on the batch's own requests that concern this property (method sets,
		// accessors, reset API): a request that was left out must not become a hole in this check
		for _, f := range b.Static {
			if f.Prop == prop {
				run.Violation(fmt.Sprintf("tree seed=%d mock=%s argv=%v :: emitted file: %s", t.Seed, f.Mock, f.Argv, f.Msg), batchFiles(b, rt.MockSpec{}, nil))
			}
		}
		shapes := map[string]rt.MockSpec{}
		for _, m := range b.Mocks {
			shapes[m.Name] = m
		}
		switch prop {
		case "C03", "C04", "C07", "C08":
			ops, rounds := 60, 2
			if tier == "thorough" {
				ops, rounds = 400, 6
			}
			var skip []string
			for attempt := 0; attempt < 8; attempt++ {
				args := []string{"seq", fmt.Sprint(seed + int64(bi)), fmt.Sprintf("ops=%d", ops), fmt.Sprintf("rounds=%d", rounds)}
				if len(skip) > 0 {
					args = append(args, "skip="+strings.Join(skip, ","))
				}
				rr := rt.Run(b.Bins["plain"], args, nil, 6*time.Minute)
				dead := strings.Contains(rr.Stderr, "all goroutines are asleep - deadlock!")
				handleRun(run, prop, b, rr, agg, "seq", shapes, &dead)
				if !dead || rr.LastMock == "" {
					break
				}
				// the sequential driver holds no locks of its own: a Go runtime deadlock report means an operation on
				// the mock never returned, so nothing this property promises about it can be observed
				m := shapes[rr.LastMock]
				run.Violation(fmt.Sprintf("tree seed=%d mock=%s (iface %s, stub=%v resets=%v other-package=%v) :: an operation on the mock never returned: Go runtime reports 'all goroutines are asleep - deadlock!' in a sequential history", t.Seed, rr.LastMock, m.Iface.Name, m.Stub, m.Resets, m.Other),
					batchFiles(b, m, map[string]string{"stderr.txt": trunc(rr.Stderr, 20000)}))
				skip = append(skip, rr.LastMock)
			}
		case "C05":
			hist, ops := 4, 25
			if tier == "thorough" {
				hist, ops = 24, 40
			}
			logPrefix := filepath.Join(bw, "race.log")
			rr := rt.Run(b.Bins["race"], []string{"conc", fmt.Sprint(seed + int64(bi)), fmt.Sprintf("histories=%d", hist), fmt.Sprintf("ops=%d", ops)}, []string{"GORACE=halt_on_error=0 log_path=" + logPrefix}, 30*time.Minute)
			handleRun(run, prop, b, rr, agg, "conc-race", shapes, nil)
			for _, r := range rt.ParseRaceLogs(logPrefix) {
				agg.mu.Lock()
				if r.Generated {
					if _, dup := agg.raceKeys[r.Key]; !dup {
						agg.raceKeys[r.Key] = r.Text
					}
				} else {
					agg.raceOther++
				}
				agg.mu.Unlock()
			}
			for _, v := range []string{"plain", "isync"} {
				rr := rt.Run(b.Bins[v], []string{"conc", fmt.Sprint(seed*3 + int64(bi)), fmt.Sprintf("histories=%d", hist*2), fmt.Sprintf("ops=%d", ops)}, nil, 30*time.Minute)
				handleRun(run, prop, b, rr, agg, "conc-"+v, shapes, nil)
			}
			runDFSMode(run, prop, b, agg, shapes, seed+int64(bi), tier)
		case "C06":
			stress := 4
			if tier == "thorough" {
				stress = 40
			}
			rr := rt.Run(b.Bins["isync"], []string{"lock", fmt.Sprint(seed + int64(bi)), fmt.Sprintf("stress=%d", stress)}, nil, 30*time.Minute)
			handleRun(run, prop, b, rr, agg, "lock-isync", shapes, nil)
			runDFSMode(run, prop, b, agg, shapes, seed+int64(bi), tier)
			// real sync: a held lock is a genuine deadlock, which the Go runtime reports as a fatal error; restart
			// after each one, skipping the mock it happened on
			var skip []string
			for attempt := 0; attempt < len(b.Mocks)+1; attempt++ {
				args := []string{"lock", fmt.Sprint(seed + int64(bi)), "real=1"}
				if len(skip) > 0 {
					args = append(args, "skip="+strings.Join(skip, ","))
				}
				rr := rt.Run(b.Bins["plain"], args, nil, 10*time.Minute)
				dead := strings.Contains(rr.Stderr, "all goroutines are asleep - deadlock!")
				handleRun(run, prop, b, rr, agg, "lock-real", shapes, &dead)
				if !dead || rr.LastMock == "" {
					break
				}
				m := shapes[rr.LastMock]
				run.Violation(fmt.Sprintf("tree seed=%d mock=%s (iface %s, stub=%v resets=%v other-package=%v) :: real sync: Go runtime reports 'all goroutines are asleep - deadlock!' during program %q", t.Seed, rr.LastMock, m.Iface.Name, m.Stub, m.Resets, m.Other, rr.LastProg),
					batchFiles(b, m, map[string]string{"stderr.txt": trunc(rr.Stderr, 20000)}))
				skip = append(skip, rr.LastMock)
			}
		}
		if prop == "C05" {
			checkHistories(run, agg, tier)
		}
		os.RemoveAll(bw)
	}
	if prop == "C08" {
		staticResetAPI(run, mq, work, seed, tier)
	}
	agg.mu.Lock()
	for k, v := range agg.stats {
		run.Set(k, int(v))
	}
	if prop == "C05" {
		run.Set("porcupine_partitions", agg.lin)
		run.Set("race_reports_in_generated_code_distinct", len(agg.raceKeys))
		run.Set("race_reports_elsewhere", agg.raceOther)
		for k, text := range agg.raceKeys {
			run.Violation("data race with a frame in generated code: "+k, map[string]string{"race_report.txt": text})
		}
		if agg.raceOther > 0 {
			fmt.Printf("note: %d race reports without a frame in generated code (driver or runtime); not attributed\n", agg.raceOther)
		}
	}
	agg.mu.Unlock()
	return run.Finish()
}

func batchFiles(b *rt.Batch, m rt.MockSpec, extra map[string]string) map[string]string {
	files := map[string]string{}
	for rel, content := range b.Tree.Files {
		files["tree/"+rel] = content
	}
	if src, err := os.ReadFile(filepath.Join(b.Root, m.File)); err == nil {
		files["tree/"+m.File] = string(src)
	}
	if src, err := os.ReadFile(filepath.Join(b.Root, "cmd", "rtmain", "main.go")); err == nil {
		files["tree/cmd/rtmain/main.go"] = string(src)
	}
	for k, v := range extra {
		files[k] = v
	}
	files["REPLAY.sh"] = "# copy monitors/isync and monitors/_drv (VERIFMOD -> module path) into tree/isync and tree/drv, then:\n# cd tree && go build -o rtmain ./cmd/rtmain && ./rtmain <mode> <seed> only=" + m.Name + "\n"
	return files
}

// handleRun turns driver output into evidence and violations of prop.
func handleRun(run *evid.Run, prop string, b *rt.Batch, rr rt.RunResult, agg *rtAgg, mode string, shapes map[string]rt.MockSpec, expectedDeath *bool) {
	if rr.TimedOut {
		run.Inconc("driver watchdog (" + mode + ")")
		fmt.Printf("INCONCLUSIVE: %s driver timed out on mock %s\n%s\n", mode, rr.LastMock, trunc(rr.Stderr, 3000))
		return
	}
	if rr.Exit != 0 && (expectedDeath == nil || !*expectedDeath) {
		run.Inconc("driver exited abnormally (" + mode + ")")
		fmt.Printf("INCONCLUSIVE: %s driver exit=%d last mock %s\n%s\n", mode, rr.Exit, rr.LastMock, trunc(rr.Stderr, 3000))
	}
	seenMocks := map[string]bool{}
	for _, l := range rr.Lines {
		switch l["t"] {
		case "progress":
			name, _ := l["mock"].(string)
			if !seenMocks[name] {
				seenMocks[name] = true
				m := shapes[name]
				key := ""
				if m.Iface != nil && len(m.Iface.Methods)+len(m.Iface.Embeds) > 0 {
					key = fmt.Sprintf("%s|stub=%v|resets=%v|other=%v|%s", m.Shape, m.Stub, m.Resets, m.Other, mode)
				}
				run.Eval(key)
			}
		case "viol":
			if l["prop"] != prop {
				continue
			}
			name, _ := l["mock"].(string)
			m := shapes[name]
			hist, _ := json.MarshalIndent(l["hist"], "", " ")
			iface := ""
			if m.Iface != nil {
				iface = m.Iface.Name
			}
			run.Violation(fmt.Sprintf("tree seed=%d mock=%s (iface %s, stub=%v resets=%v other-package=%v) method=%v mode=%s :: %v", b.Tree.Seed, name, iface, m.Stub, m.Resets, m.Other, l["method"], mode, l["msg"]),
				batchFiles(b, m, map[string]string{"history.json": string(hist)}))
		case "inconclusive":
			run.Inconc(fmt.Sprint(l["why"]))
		case "stat":
			agg.mu.Lock()
			for k, v := range l {
				if f, ok := v.(float64); ok {
					agg.stats[mode+"_"+k] += int64(f)
				}
			}
			agg.mu.Unlock()
		case "hist":
			if prop != "C05" {
				continue
			}
			raw, _ := json.Marshal(l["events"])
			var evs []lin.Event
			if json.Unmarshal(raw, &evs) != nil {
				continue
			}
			name, _ := l["mock"].(string)
			m := shapes[name]
			run.Eval(fmt.Sprintf("hist|%s|%v|g=%v|resets=%v|%s", m.Shape, l["method"], l["goroutines"], l["resets"], mode))
			agg.mu.Lock()
			agg.hists = append(agg.hists, pendingHist{b: b, m: m, mock: name, method: fmt.Sprint(l["method"]), g: l["goroutines"], mode: mode, evs: evs})
			agg.mu.Unlock()
		}
	}
	if prop != "C05" && len(rr.Lines) > 0 {
		// a sample of what the driver observed
		for _, l := range rr.Lines {
			if l["t"] == "stat" {
				run.Sample(map[string]any{"mode": mode, "tree_seed": b.Tree.Seed, "mocks_in_batch": len(b.Mocks), "driver_counters": l})
				break
			}
		}
	}
}

// checkHistories runs porcupine over the collected histories of a batch, in parallel, each under a timeout;
// a timeout is inconclusive. The number of histories searched is capped (the direct n log n checks of the
// driver cover all of them).
func checkHistories(run *evid.Run, agg *rtAgg, tier string) {
	agg.mu.Lock()
	hs := agg.hists
	agg.hists = nil
	agg.mu.Unlock()
	limit, timeout := 240, 5*time.Second
	if tier == "thorough" {
		limit, timeout = 1500, 20*time.Second
	}
	if len(hs) > limit {
		var pick []pendingHist
		step := float64(len(hs)) / float64(limit)
		for i := 0; i < limit; i++ {
			pick = append(pick, hs[int(float64(i)*step)])
		}
		run.Add("histories_not_searched_by_porcupine", len(hs)-len(pick))
		hs = pick
	}
	runner.Parallel(len(hs), 16, func(i int) {
		h := hs[i]
		res := lin.Check(h.evs, timeout)
		agg.mu.Lock()
		agg.lin[res]++
		agg.mu.Unlock()
		if i%40 == 0 && len(h.evs) < 40 {
			run.Sample(map[string]any{"mock": h.mock, "method": h.method, "goroutines": h.g, "mode": h.mode, "linearizable": res, "history": h.evs})
		}
		switch res {
		case "illegal":
			pretty, _ := json.MarshalIndent(h.evs, "", " ")
			run.Violation(fmt.Sprintf("tree seed=%d mock=%s method=%v mode=%s :: recorded history is not linearizable w.r.t. the append-only list model", h.b.Tree.Seed, h.mock, h.method, h.mode),
				batchFiles(h.b, h.m, map[string]string{"history.json": string(pretty)}))
		case "unknown":
			run.Inconc("porcupine timeout")
		}
	})
}

// runDFSMode enumerates all lock-level schedules of tiny programs on a spread of mocks of the batch.
func runDFSMode(run *evid.Run, prop string, b *rt.Batch, agg *rtAgg, shapes map[string]rt.MockSpec, seed int64, tier string) {
	pick, maxexec := 6, 1500
	if tier == "thorough" {
		pick, maxexec = 10, 5000
	}
	rr := rt.Run(b.Bins["isync"], []string{"dfs", fmt.Sprint(seed), fmt.Sprintf("pick=%d", pick), fmt.Sprintf("maxexec=%d", maxexec)}, nil, 30*time.Minute)
	handleRun(run, prop, b, rr, agg, "dfs", shapes, nil)
	exhausted, total := 0, 0
	for _, l := range rr.Lines {
		if l["t"] == "dfs" {
			total++
			if l["exhaustive"] == true {
				exhausted++
			}
			if total <= 2 {
				run.Sample(map[string]any{"mode": "dfs", "mock": l["mock"], "program": l["program"], "schedules_enumerated": l["schedules"], "exhaustive": l["exhaustive"]})
			}
		}
	}
	run.Add("dfs_programs_total", total)
	run.Add("dfs_programs_fully_enumerated", exhausted)
}

// staticResetAPI checks the presence/absence of the reset API on the emitted text of multi-interface requests
// (the runtime batches generate one mock per invocation, so state shared between the mocks of one run would
// otherwise never be exercised for C08).
func staticResetAPI(run *evid.Run, mq *runner.Moq, work string, seed int64, tier string) {
	ntrees := 3
	if tier == "thorough" {
		ntrees = 40
	}
	hz := currentHazards()
	var jobs []job
	for i := 0; i < ntrees; i++ {
		t := gen.NewTree(seed*100151+int64(i), gen.Profiles[i%len(gen.Profiles)], hz)
		ld, err := prepTree(filepath.Join(work, "c08static"), t, i)
		if err != nil {
			run.Inconc("generated tree does not load")
			continue
		}
		rng := rand.New(rand.NewSource(seed*29 + int64(i)))
		o := gen.DefaultCaseOpts
		o.PerIface, o.Multi, o.SameName = 0, 6, hz.SamePkgName
		for k, c := range gen.Cases(t, rng, o) {
			c.WithResets = k%4 != 3 // mostly with the flag, sometimes without
			jobs = append(jobs, job{c: c, lt: ld.lt, dir: ld.dir})
		}
	}
	// library use: one Mocker asked for the same mocks twice (a second destination, a retry): the second answer
	// must carry the reset API as well. Only the reset API is asserted on it - a re-used Mocker keeps its import
	// and naming state, so its second answer need not be byte-identical to the first.
	var ljobs []libJob
	var lidx []int
	for i, j := range jobs {
		if len(ljobs) >= 12 || !j.c.WithResets {
			continue
		}
		var names []string
		for k, ifc := range j.c.Ifaces {
			names = append(names, ifc.Name+":"+j.c.MockName(k))
		}
		ljobs = append(ljobs, libJob{Dir: "/", SrcDir: filepath.Join(j.dir, j.c.Tree.SrcDir), PkgName: j.c.PkgName, Fmt: j.c.Fmt, Stub: j.c.Stub, Skip: j.c.SkipEnsure, Resets: true, Names: names, Repeat: 1, WantReuse: true})
		lidx = append(lidx, i)
	}
	if res, err := runLibDriver(work, "c08reuse.json", ljobs); err == nil {
		for k, r := range res {
			j := jobs[lidx[k]]
			if len(r.Errs) == 0 || r.Errs[0] != "" || r.ReuseErr != "" || r.Reuse == "" {
				continue
			}
			chk := ostatic.CheckOutput(j.lt, j.c.Tree.SrcPath, j.c.Dest, j.c.PkgName, []byte(r.Reuse))
			fs, _ := ostatic.Analyse(chk, requestOf(j.c, j.lt))
			run.Eval("second-answer|" + j.c.Key())
			run.Add("second_answers_of_one_mocker_checked", 1)
			var msgs []string
			for _, f := range fs {
				if f.Prop == "C08" {
					msgs = append(msgs, f.Msg)
				}
			}
			if len(msgs) > 0 {
				run.Violation(fmt.Sprintf("seed=%d argv=%v :: second answer of one Mocker (library use): %s", j.c.Tree.Seed, j.c.Args(), strings.Join(dedupe(msgs), " | ")), map[string]string{"second_answer.go.txt": r.Reuse})
			}
		}
	} else if len(ljobs) > 0 {
		run.Inconc("library driver: " + err.Error())
	}
	runner.Parallel(len(jobs), 16, func(i int) {
		j := jobs[i]
		findings, facts, res, verdict := evalCase(mq, j, "C08")
		if verdict != "ok" {
			return
		}
		key := ""
		if facts.Methods > 0 {
			key = "joint-request|" + j.c.Key()
		}
		run.Eval(key)
		run.Add("joint_requests_checked_for_reset_api", 1)
		var msgs []string
		for _, f := range findings {
			if f.Prop == "C08" {
				msgs = append(msgs, f.Msg)
			}
		}
		if len(msgs) > 0 {
			run.Violation(fmt.Sprintf("seed=%d profile=%s argv=%v :: %s", j.c.Tree.Seed, j.c.Tree.Profile, j.c.Args(), strings.Join(dedupe(msgs), " | ")), replayFiles(j.c, res, findings))
		}
	})
}
