module example.com/kfw

go 1.24
