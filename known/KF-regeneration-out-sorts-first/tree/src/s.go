package src

import (
	util "example.com/kfw/a/util"
	. "example.com/kfw/b/util-go"
)

type Doer interface {
	Do(a util.T, b U)
}
