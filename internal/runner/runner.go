// Package runner builds the real moq binary from the repository under test and runs it as a child process.
package runner

import (
	"bytes"
	"fmt"
	"os"
	"os/exec"
	"path/filepath"
	"strings"
	"sync"
	"syscall"
	"time"
)

// Repo returns the repository under test.
func Repo() string {
	if r := os.Getenv("VERIF_REPO"); r != "" {
		return r
	}
	return "/repo"
}

// Moq is a built moq binary.
type Moq struct {
	Bin  string
	Work string
}

// ChildEnv is the environment given to moq (and to the go command it shells out to).
func ChildEnv(extra ...string) []string {
	var env []string
	for _, kv := range os.Environ() {
		if strings.HasPrefix(kv, "GOFLAGS=") || strings.HasPrefix(kv, "GO111MODULE=") || strings.HasPrefix(kv, "GOPATH=") || strings.HasPrefix(kv, "GOWORK=") {
			continue
		}
		env = append(env, kv)
	}
	env = append(env, "GOFLAGS=", "GOWORK=off", "GOPROXY=off", "GOTOOLCHAIN=local", "GOTELEMETRY=off")
	return append(env, extra...)
}

// NewWork creates a scratch directory outside /repo and /verif.
func NewWork(prefix string) (string, error) {
	base := os.Getenv("VERIF_TMP")
	if base == "" {
		base = os.TempDir()
	}
	return os.MkdirTemp(base, "verif-"+prefix+"-")
}

// Build compiles moq from the repository's current working tree.
func Build(work string, extraArgs ...string) (*Moq, error) {
	bin := filepath.Join(work, "moq")
	args := append([]string{"build"}, extraArgs...)
	args = append(args, "-o", bin, ".")
	cmd := exec.Command("go", args...)
	cmd.Dir = Repo()
	cmd.Env = append(os.Environ(), "GOFLAGS=-mod=mod")
	out, err := cmd.CombinedOutput()
	if err != nil {
		return nil, fmt.Errorf("building moq from %s: %v\n%s", Repo(), err, out)
	}
	return &Moq{Bin: bin, Work: work}, nil
}

// Result of one run.
type Result struct {
	Args     []string
	Cwd      string
	Exit     int
	Signal   string
	Stdout   []byte
	Stderr   []byte
	TimedOut bool // wall-clock watchdog fired: inconclusive
	CPUms    int64
	Wall     time.Duration
}

// Opts for Run.
type Opts struct {
	CPULimit int           // seconds of CPU for the moq process (RLIMIT_CPU), 0 = 20
	Wall     time.Duration // watchdog, 0 = 120s
	Env      []string
	Stdin    []byte
	Prefix   []string // command prefix, e.g. strace ...
	StdoutPath string  // when set, moq's standard output is this file/device instead of a buffer
}

// Run executes moq with args in cwd.
func (m *Moq) Run(cwd string, args []string, o Opts) Result {
	if o.CPULimit == 0 {
		o.CPULimit = 20
	}
	if o.Wall == 0 {
		o.Wall = 120 * time.Second
	}
	// ulimit -t is inherited by moq and its children; each process has its own CPU clock.
	// the CPU limit applies to moq and its children, not to a tracer in front of it
	script := fmt.Sprintf("ulimit -t %d; exec \"$@\"", o.CPULimit)
	inner := append([]string{"/bin/sh", "-c", script, "sh", m.Bin}, args...)
	full := append(append([]string{}, o.Prefix...), inner...)
	cmd := exec.Command(full[0], full[1:]...)
	cmd.Dir = cwd
	cmd.Env = ChildEnv(o.Env...)
	cmd.SysProcAttr = &syscall.SysProcAttr{Setpgid: true}
	var so, se bytes.Buffer
	cmd.Stdout, cmd.Stderr = &so, &se
	if o.StdoutPath != "" {
		if f, err := os.OpenFile(o.StdoutPath, os.O_WRONLY, 0); err == nil {
			defer f.Close()
			cmd.Stdout = f
		}
	}
	if o.Stdin != nil {
		cmd.Stdin = bytes.NewReader(o.Stdin)
	}
	res := Result{Args: args, Cwd: cwd}
	start := time.Now()
	if err := cmd.Start(); err != nil {
		res.Exit = -1
		res.Stderr = []byte("harness: " + err.Error())
		return res
	}
	done := make(chan error, 1)
	go func() { done <- cmd.Wait() }()
	var err error
	select {
	case err = <-done:
	case <-time.After(o.Wall):
		syscall.Kill(-cmd.Process.Pid, syscall.SIGKILL)
		err = <-done
		res.TimedOut = true
	}
	res.Wall = time.Since(start)
	res.Stdout, res.Stderr = so.Bytes(), se.Bytes()
	if cmd.ProcessState != nil {
		res.CPUms = (cmd.ProcessState.UserTime() + cmd.ProcessState.SystemTime()).Milliseconds()
		if ws, ok := cmd.ProcessState.Sys().(syscall.WaitStatus); ok {
			if ws.Signaled() {
				res.Signal = ws.Signal().String()
				res.Exit = 128 + int(ws.Signal())
			} else {
				res.Exit = ws.ExitStatus()
			}
		}
	} else if err != nil {
		res.Exit = -1
	}
	return res
}

// Parallel runs f(i) for i in [0,n) on `workers` goroutines.
func Parallel(n, workers int, f func(i int)) {
	ParallelW(n, workers, func(_, i int) { f(i) })
}

// ParallelW is Parallel with the worker index passed to f.
func ParallelW(n, workers int, f func(worker, i int)) {
	if workers <= 0 {
		workers = 16
	}
	var wg sync.WaitGroup
	ch := make(chan int)
	for w := 0; w < workers; w++ {
		wg.Add(1)
		go func(w int) {
			defer wg.Done()
			for i := range ch {
				f(w, i)
			}
		}(w)
	}
	for i := 0; i < n; i++ {
		ch <- i
	}
	close(ch)
	wg.Wait()
}
