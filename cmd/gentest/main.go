package main

import (
	"fmt"
	"os"
	"os/exec"
	"strconv"

	"verif/internal/gen"
)

func main() {
	n, _ := strconv.Atoi(os.Args[1])
	base := os.Args[2]
	bad := 0
	for s := 0; s < n; s++ {
		for _, p := range append(gen.Profiles, gen.ProfRuntime, gen.ProfCluster, gen.ProfRegen) {
			t := gen.NewTree(int64(s), p, gen.Hazards{})
			dir := fmt.Sprintf("%s/t%d_%s", base, s, p.Name)
			os.RemoveAll(dir)
			if err := t.WriteTo(dir); err != nil {
				panic(err)
			}
			cmd := exec.Command("go", "vet", "./...")
			cmd.Dir = dir
			cmd.Env = append(os.Environ(), "GOFLAGS=")
			out, err := cmd.CombinedOutput()
			if err != nil {
				bad++
				fmt.Printf("== %s: %v\n%s\n", dir, err, out)
			} else {
				os.RemoveAll(dir)
			}
		}
	}
	fmt.Println("bad:", bad)
}
