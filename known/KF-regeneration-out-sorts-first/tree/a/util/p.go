package util

type T struct{}
