package inner

import "example.com/kft/b/template"

type Base interface{ Tpl() *template.Template }
