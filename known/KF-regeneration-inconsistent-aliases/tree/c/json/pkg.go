package json

import (
	tr "example.com/m787/lib.v2/json"
	tr0 "example.com/m787/pkg/json_impl"
	tr1 "example.com/m787/lib.v2/json"
	tr2 "example.com/m787/b/json-go"
)

type Item struct{ V int }

type Iface interface{ M4() string }

type Func func(int) string

type Gen[E any] struct{ E E }

type List[E any] = []E

type Num int

func (n Num) String() string { return "" }

type Constr interface{ ~int | ~string }

type Str interface{ String() string }

type Emb4 interface{ Em4(x tr.T, y *Item, f func(tr1.T, tr2.Record) (tr0.Item, error)) (tr.Num, error) }
