package types

type Func func(int) string
