package src

import (
	"example.com/kft/a/template/v2"
	"example.com/kft/inner"
)

type Opener interface {
	inner.Base
	Open(e template.Emb, v2 string)
}
