package kfu

type T struct{}

type G[t any] interface {
	Do(T) t
}
