// Package cli is the process monitor: it runs the real moq binary under strace, reduces the trace to a ledger
// of file-modifying system calls of the whole process tree, and snapshots the scratch tree before and after.
package cli

import (
	"bufio"
	"fmt"
	"os"
	"path/filepath"
	"regexp"
	"strings"

	"verif/internal/runner"
)

// Event is one successful file-modifying system call.
type Event struct {
	Pid     string
	Syscall string
	Path    string // absolute, cleaned
	Path2   string // rename/link target
	Flags   string
	Ret     string
	Failed  bool
	Raw     string
}

func (e Event) String() string {
	s := fmt.Sprintf("%s(%s", e.Syscall, e.Path)
	if e.Path2 != "" {
		s += " -> " + e.Path2
	}
	if e.Flags != "" {
		s += ", " + e.Flags
	}
	return s + ") = " + e.Ret
}

const traced = "openat,open,creat,unlink,unlinkat,rename,renameat,renameat2,mkdir,mkdirat,rmdir,chmod,fchmod,fchmodat,chown,fchown,lchown,fchownat,truncate,ftruncate,link,linkat,symlink,symlinkat,utimensat,utime,utimes,futimesat,chdir,fchdir,execve"

// Trace describes how to run under strace.
type Trace struct {
	LogPath string
	Inject  []string // e.g. "write:error=ENOSPC" ; applied with -P PathFilter when set
	PathFilter string
	ExtraTrace string // additional syscalls to trace (e.g. "write")
}

// Prefix returns the command prefix for runner.Opts.
func (t Trace) Prefix() []string {
	tr := traced
	if t.ExtraTrace != "" {
		tr += "," + t.ExtraTrace
	}
	p := []string{"strace", "-f", "-qq", "-y", "-s", "64", "-e", "signal=none", "-o", t.LogPath, "-e", "trace=" + tr}
	for _, in := range t.Inject {
		p = append(p, "-e", "inject="+in)
	}
	if t.PathFilter != "" {
		p = append(p, "-P", t.PathFilter)
	}
	return p
}

var (
	lineRe     = regexp.MustCompile(`^(\d+)\s+(.*)$`)
	resumedRe  = regexp.MustCompile(`^<\.\.\. (\w+) resumed>(.*)$`)
	callRe     = regexp.MustCompile(`^(\w+)\((.*)\)\s+= (-?\d+|\?)(.*)$`)
	fdPathRe   = regexp.MustCompile(`^(?:AT_FDCWD|\d+)<([^>]*)>$`)
)

// ParseLedger reads a strace log and returns the modifying events (successful and failed) whose path lies
// below one of roots, plus the order-preserving list of execve calls (for "before the package load" checks).
func ParseLedger(logPath, cwd string, roots ...string) ([]Event, []string, error) {
	f, err := os.Open(logPath)
	if err != nil {
		return nil, nil, err
	}
	defer f.Close()
	pending := map[string]string{}
	var events []Event
	var order []string // "exec:<argv0 summary>" and "mod:<event>" in trace order
	sc := bufio.NewScanner(f)
	sc.Buffer(make([]byte, 1<<20), 1<<24)
	for sc.Scan() {
		m := lineRe.FindStringSubmatch(sc.Text())
		if m == nil {
			continue
		}
		pid, rest := m[1], m[2]
		if strings.HasSuffix(rest, "<unfinished ...>") {
			pending[pid] = strings.TrimSuffix(rest, " <unfinished ...>")
			continue
		}
		if r := resumedRe.FindStringSubmatch(rest); r != nil {
			rest = pending[pid] + r[2]
			delete(pending, pid)
		}
		c := callRe.FindStringSubmatch(rest)
		if c == nil {
			continue
		}
		name, args, ret, tail := c[1], c[2], c[3], c[4]
		if name == "execve" {
			if ret == "0" {
				order = append(order, "exec:"+firstArgs(args))
			}
			continue
		}
		if name == "chdir" || name == "fchdir" {
			continue
		}
		ev, ok := toEvent(pid, name, args, ret, tail, cwd)
		if !ok {
			continue
		}
		ev.Raw = rest
		inside := false
		for _, r := range roots {
			if under(ev.Path, r) || (ev.Path2 != "" && under(ev.Path2, r)) {
				inside = true
			}
		}
		if !inside {
			continue
		}
		events = append(events, ev)
		if !ev.Failed {
			order = append(order, "mod:"+ev.String())
		}
	}
	return events, order, sc.Err()
}

func under(p, root string) bool {
	return p == root || strings.HasPrefix(p, strings.TrimSuffix(root, "/")+"/")
}

func firstArgs(args string) string {
	if len(args) > 160 {
		args = args[:160]
	}
	return args
}

// splitArgs splits a strace argument list at top-level commas.
func splitArgs(s string) []string {
	var out []string
	depth, inq, start := 0, false, 0
	for i := 0; i < len(s); i++ {
		ch := s[i]
		switch {
		case inq:
			if ch == '\\' {
				i++
			} else if ch == '"' {
				inq = false
			}
		case ch == '"':
			inq = true
		case ch == '<' || ch == '[' || ch == '{' || ch == '(':
			depth++
		case ch == '>' || ch == ']' || ch == '}' || ch == ')':
			depth--
		case ch == ',' && depth == 0:
			out = append(out, strings.TrimSpace(s[start:i]))
			start = i + 1
		}
	}
	out = append(out, strings.TrimSpace(s[start:]))
	return out
}

func unq(s string) string {
	s = strings.TrimSuffix(s, "...")
	if len(s) >= 2 && s[0] == '"' && s[len(s)-1] == '"' {
		return s[1 : len(s)-1]
	}
	return s
}

func resolve(dirfd, p, cwd string) string {
	p = unq(p)
	if filepath.IsAbs(p) {
		return filepath.Clean(p)
	}
	base := cwd
	if m := fdPathRe.FindStringSubmatch(dirfd); m != nil {
		base = m[1]
	}
	return filepath.Clean(filepath.Join(base, p))
}

func toEvent(pid, name, args, ret, tail, cwd string) (Event, bool) {
	a := splitArgs(args)
	ev := Event{Pid: pid, Syscall: name, Ret: ret + strings.TrimRight(tail, " ")}
	ev.Failed = strings.HasPrefix(ret, "-")
	get := func(i int) string {
		if i < len(a) {
			return a[i]
		}
		return ""
	}
	switch name {
	case "openat":
		fl := get(2)
		if !strings.Contains(fl, "O_WRONLY") && !strings.Contains(fl, "O_RDWR") && !strings.Contains(fl, "O_CREAT") && !strings.Contains(fl, "O_TRUNC") && !strings.Contains(fl, "O_APPEND") {
			return ev, false
		}
		ev.Path, ev.Flags = resolve(get(0), get(1), cwd), fl
	case "open":
		fl := get(1)
		if !strings.Contains(fl, "O_WRONLY") && !strings.Contains(fl, "O_RDWR") && !strings.Contains(fl, "O_CREAT") && !strings.Contains(fl, "O_TRUNC") && !strings.Contains(fl, "O_APPEND") {
			return ev, false
		}
		ev.Path, ev.Flags = resolve("", get(0), cwd), fl
	case "creat", "unlink", "mkdir", "rmdir", "chmod", "chown", "lchown", "truncate", "utime", "utimes":
		ev.Path = resolve("", get(0), cwd)
	case "unlinkat", "mkdirat", "fchmodat", "fchownat", "futimesat":
		ev.Path = resolve(get(0), get(1), cwd)
		if name == "unlinkat" {
			ev.Flags = get(2)
		}
	case "utimensat":
		if get(1) == "NULL" {
			if m := fdPathRe.FindStringSubmatch(get(0)); m != nil {
				ev.Path = m[1]
			}
		} else {
			ev.Path = resolve(get(0), get(1), cwd)
		}
	case "fchmod", "fchown", "ftruncate":
		m := fdPathRe.FindStringSubmatch(get(0))
		if m == nil {
			return ev, false
		}
		ev.Path = m[1]
	case "rename", "link", "symlink":
		if name == "symlink" {
			ev.Path = resolve("", get(1), cwd)
		} else {
			ev.Path, ev.Path2 = resolve("", get(0), cwd), resolve("", get(1), cwd)
		}
	case "renameat", "renameat2", "linkat":
		ev.Path, ev.Path2 = resolve(get(0), get(1), cwd), resolve(get(2), get(3), cwd)
	case "symlinkat":
		ev.Path = resolve(get(1), get(2), cwd)
	default:
		return ev, false
	}
	return ev, ev.Path != ""
}

// RunTraced runs moq under strace and returns the result plus the ledger restricted to roots.
func RunTraced(m *runner.Moq, cwd string, args []string, tr Trace, o runner.Opts, roots ...string) (runner.Result, []Event, []string, error) {
	o.Prefix = tr.Prefix()
	os.Remove(tr.LogPath)
	res := m.Run(cwd, args, o)
	ev, order, err := ParseLedger(tr.LogPath, cwd, roots...)
	return res, ev, order, err
}
