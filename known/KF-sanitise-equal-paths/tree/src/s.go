package src

import (
	x1 "example.com/kfa/a-b/x"
	x2 "example.com/kfa/ab/x"
)

type Inner interface{ In(t x1.T, u x2.U) }
